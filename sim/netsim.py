"""Annotated motif networks for C11, C12, C13: explicit specs (JSON), a direct constructor for small
clean networks (stub, reported as such) and the real sampler+generator pipeline under the scheduler."""
from itertools import combinations

import networkx as nx

from gcmpy.network.edge_list import LightWeightEdgeList
from gcmpy.network.edge_list_to_network import EdgeListToNetwork
from gcmpy.names.network_names import NetworkNames
from gcmpy.names.gcm_algorithm_names import GCMAlgorithmNames
from gcmpy.names.joint_degree_names import JointDegreeNames
from gcmpy.gcm_algorithm.gcm_algorithm_network import GCMAlgorithmNetwork
from gcmpy.joint_degree.joint_degree_loaders.joint_degree_manual import JointDegreeManual
from gcmpy.motif_generators.clique_motif import clique_motif
from gcmpy.motif_generators.cycle_motif import cycle_motif

JD = NetworkNames.JOINT_DEGREE
TOP = NetworkNames.TOPOLOGY
MID = NetworkNames.MOTIF_IDS

TOPO_POOL = [
    {"kind": "clique", "size": 2, "name": "2-clique"},
    {"kind": "clique", "size": 3, "name": "3-clique"},
    {"kind": "clique", "size": 4, "name": "4-clique"},
    {"kind": "cycle", "size": 4, "name": "4-cycle"},
    {"kind": "cycle", "size": 5, "name": "5-cycle"},
    {"kind": "clique", "size": 2, "name": "2-clique-blue"},
    {"kind": "clique", "size": 3, "name": "tri-2"},
    {"kind": "clique", "size": 2, "name": ""},
    {"kind": "clique", "size": 2, "name": "2-clique "},
    {"kind": "cycle", "size": 4, "name": "\u00e9-cycle"},
    {"kind": "clique", "size": 3, "name": "3"},
]


# Motifs whose edges carry MORE THAN ONE topology name under one motif id (gcmpy's custom-motif generator names the rim
# of a diamond 'diamond-outer' and its chord 'diamond-inner'): a main part plus chord parts on vertex positions of the
# main part.  In a spec they are two entries of the topology list (two annotation columns): the main entry carries
# chord_topo / chord_pairs, the chord entry is part_only (never placed on its own).
COMPOSITES = [
    {"main": {"kind": "cycle", "size": 4, "name": "diamond-outer"}, "chord": "diamond-inner", "pairs": [[0, 2]]},
    {"main": {"kind": "cycle", "size": 4, "name": "k4-rim"}, "chord": "k4-diagonal", "pairs": [[0, 2], [1, 3]]},
    {"main": {"kind": "cycle", "size": 5, "name": "house-wall"}, "chord": "house-beam", "pairs": [[1, 4]]},
    {"main": {"kind": "clique", "size": 3, "name": "kite-body"}, "chord": "kite-tail", "pairs": [[0, 3]], "extra_verts": 1},
]


def add_composite(prng, topos):
    """Append one multi-name motif type (two topology entries) to a topology list."""
    c = prng.choice(COMPOSITES)
    if any(t["name"] in (c["main"]["name"], c["chord"]) for t in topos):
        return topos
    main = dict(c["main"])
    main["chord_topo"] = len(topos) + 1
    main["chord_pairs"] = [list(p) for p in c["pairs"]]
    if c.get("extra_verts"):
        main["extra_verts"] = c["extra_verts"]          # vertices of the motif beyond the main part (the kite's tail end)
    return topos + [main, {"kind": "clique", "size": 2, "name": c["chord"], "part_only": True}]


def motif_size(t):
    return t["size"] + t.get("extra_verts", 0)


def parts(spec, m):
    """[(topology index, topology entry, vertices of that part)] of one motif instance."""
    t = spec["topos"][m["topo"]]
    out = [(m["topo"], t, list(m["verts"][:t["size"]]))]
    for a, b in t.get("chord_pairs", ()):
        k = t["chord_topo"]
        out.append((k, spec["topos"][k], [m["verts"][a], m["verts"][b]]))
    return out


def motif_edges(kind, verts):
    if kind == "clique":
        return list(combinations(verts, 2))
    if kind == "cycle":
        return [(verts[i], verts[i + 1]) for i in range(len(verts) - 1)] + [(verts[0], verts[-1])]
    raise ValueError(kind)


def gen_clean_spec(prng, n, topos, n_motifs, tries=30):
    """Place motifs on distinct vertices, edge-disjoint, simple."""
    used = set()
    motifs = []
    spec0 = {"topos": topos}
    placeable = [k for k, t in enumerate(topos) if not t.get("part_only")]        # chord entries are never placed alone
    for _ in range(n_motifs):
        k = placeable[prng.randrange(len(placeable))]
        t = topos[k]
        if motif_size(t) > n:
            continue
        for _ in range(tries):
            vs = prng.sample(range(n), motif_size(t))
            es = [frozenset(e) for _, pt, pv in parts(spec0, {"topo": k, "verts": vs}) for e in motif_edges(pt["kind"], pv)]
            if len(set(es)) == len(es) and not any(e in used for e in es):
                used.update(es)
                motifs.append({"topo": k, "verts": vs})
                break
    return {"n": n, "topos": topos, "motifs": motifs}


def spec_jds(spec):
    n, nt = spec["n"], len(spec["topos"])
    jds = [[0] * nt for _ in range(n)]
    for m in spec["motifs"]:
        for k, _, pv in parts(spec, m):
            for v in pv:
                jds[v][k] += 1
    return [tuple(r) for r in jds]


def build_network(spec):
    """Network object from a spec, through the library's own edge-list -> network conversion."""
    el = LightWeightEdgeList()
    el.joint_degrees = retyped(spec_jds(spec), spec.get("jd_type"))
    for mid, m in enumerate(spec["motifs"]):
        for _, t, pv in parts(spec, m):
            for e in motif_edges(t["kind"], pv):
                el.edge_list.append(tuple(e))
                el.topologies.append(t["name"])
                el.motif_id.append(mid)
    net = EdgeListToNetwork.convert(el)
    decorate(net.G, spec.get("extra_attrs"))
    return net


def retyped(rows, jd_type):
    """Joint degree rows in the representation the scenario asks for: tuples (default), lists (as a JSON / hand-built
    sequence would be stored), or BOTH in one sequence (rows patched or loaded from different sources): 'mixed2' stores
    every odd vertex as a list, 'mixed3' every third."""
    if jd_type == "list":
        return [list(r) for r in rows]
    if jd_type in ("mixed2", "mixed3"):
        k = 2 if jd_type == "mixed2" else 3
        return [list(r) if v % k == 1 else tuple(r) for v, r in enumerate(rows)]
    return rows


def retype_annotations(G, jd_type):
    """Same, applied to the vertex annotations of an existing network (generator-built networks)."""
    if not jd_type:
        return
    for v in G.nodes():
        if JD in G.nodes[v]:
            k = {"list": 1, "mixed2": 2, "mixed3": 3}[jd_type]
            r = G.nodes[v][JD]
            G.nodes[v][JD] = list(r) if (k == 1 or (isinstance(v, int) and v % k == 1)) else tuple(r)


def reordered(G, mode, seed, relabel=None):
    """Copy of an annotated graph whose vertices were INSERTED in another order than their labels (a graph built from an
    edge list, relabelled, or with vertices added late) and, optionally, carry other labels.  All attributes are kept.
    mode: reversed | shuffled | edges_first;  relabel: None | offset (v + 1000) | mirror (n - 1 - v) | gaps (3 v + 2)."""
    import random as _r
    rng = _r.Random(seed)
    nodes = list(G.nodes())
    n = len(nodes)
    f = {None: (lambda v: v), "offset": (lambda v: v + 1000), "mirror": (lambda v: n - 1 - v),
         "gaps": (lambda v: 3 * v + 2)}[relabel if all(isinstance(v, int) for v in nodes) else None]
    H = G.__class__()
    H.graph.update(G.graph)
    edges = list(G.edges(data=True))
    if mode == "edges_first":
        rng.shuffle(edges)
        for u, v, d in edges:
            H.add_edges_from([(f(u), f(v), dict(d))])
        for v in nodes:
            H.add_node(f(v))
    else:
        order = nodes[::-1] if mode == "reversed" else rng.sample(nodes, n)
        for v in order:
            H.add_node(f(v))
        H.add_edges_from((f(u), f(v), dict(d)) for u, v, d in edges)
    for v in nodes:
        H.nodes[f(v)].update(G.nodes[v])
    return H


def decorate(G, extra):
    """Extra node / edge attributes with semantically loaded names (scenario field extra_attrs = [name, kind])."""
    if not extra:
        return
    name, kind = extra[0], extra[1]
    decoys = list(extra[2]) if len(extra) > 2 and extra[2] else None      # kind "names": values that look like real annotations
    for k, (u, v) in enumerate(G.edges()):
        G.edges[u, v][name] = (decoys[(k * 5 + 1) % len(decoys)] if kind == "names" and decoys else
                               (2 + k % 3) if kind == "int" else (0.5 + (k % 4)) if kind == "float" else f"x{k % 3}")
    for k, v in enumerate(G.nodes()):
        G.nodes[v][name] = (decoys[k % len(decoys)] if kind == "names" and decoys else
                            (3 + k % 2) if kind == "int" else (1.5 + (k % 3)) if kind == "float" else f"n{k % 2}")


def names(spec):
    return [t["name"] for t in spec["topos"]]


def pipeline_network(ctx, src, topos, jdd, n, sample=True, jds=None):
    """Real sampler + network generator under the scheduler.  Returns (status, Network or exc)."""
    sizes = [t["size"] for t in topos]
    if sample:
        obj = JointDegreeManual({JointDegreeNames.JDD: jdd, JointDegreeNames.MOTIF_SIZES: sizes})
        st, jds = ctx.call(src, obj.sample_jds_from_jdd, n, budget=50 * n + 1000, label="sample")
        if st != "ok":
            return st, jds
    params = {GCMAlgorithmNames.MOTIF_SIZES: sizes,
              GCMAlgorithmNames.BUILD_FUNCTIONS: [clique_motif if t["kind"] == "clique" else cycle_motif for t in topos],
              GCMAlgorithmNames.EDGE_NAMES: [t["name"] for t in topos]}
    return ctx.call(src, GCMAlgorithmNetwork(params).random_clustered_graph, list(jds), budget=None, label="generate")


def is_clean(G, topos):
    """Every motif id group is a motif of its topology on distinct vertices; no self-loops; the number of edges
    equals what the annotations promise (no collapsed duplicates)."""
    if any(u == v for u, v in G.edges()):
        return False
    name_to = {t["name"]: t for t in topos}
    groups = {}
    for u, v, d in G.edges(data=True):
        groups.setdefault(d[MID], []).append((u, v, d[TOP]))
    for mid, es in groups.items():
        t = name_to.get(es[0][2])
        if t is None or any(e[2] != t["name"] for e in es):
            return False
        want = t["size"] * (t["size"] - 1) // 2 if t["kind"] == "clique" else t["size"]
        verts = {x for e in es for x in e[:2]}
        if len(es) != want or len(verts) != t["size"]:
            return False
    # annotations promise sum_v jd[v][k] / size_k motifs of topology k
    for k, t in enumerate(topos):
        stubs = sum(G.nodes[v][JD][k] for v in G.nodes())
        per = t["size"] * (t["size"] - 1) // 2 if t["kind"] == "clique" else t["size"]
        have = sum(1 for _, _, d in G.edges(data=True) if d[TOP] == t["name"])
        if stubs // t["size"] * per != have:
            return False
    return True


def snapshot(G):
    """Deep, order-independent snapshot of an annotated graph."""
    return (sorted((str(k), repr(x)) for k, x in G.graph.items()),
            sorted((v, sorted((str(k), repr(x)) for k, x in d.items())) for v, d in G.nodes(data=True)),
            sorted((tuple(sorted((u, v))), sorted((str(k), repr(x)) for k, x in d.items()))
                   for u, v, d in G.edges(data=True)))


# ---- reference mixing matrices (oracle for C13, distance for C12) --------------------------------
def ref_ejks(G, topo_names):
    out = {}
    for i, name in enumerate(topo_names):
        cnt = {}
        ends = 0
        for u, v, d in G.edges(data=True):
            if d.get(TOP) != name:
                continue
            a = list(G.nodes[u][JD])
            b = list(G.nodes[v][JD])
            a[i] -= 1
            b[i] -= 1
            a, b = tuple(a), tuple(b)
            cnt[a + b] = cnt.get(a + b, 0) + 1
            cnt[b + a] = cnt.get(b + a, 0) + 1
            ends += 2
        out[name] = {k: c / ends for k, c in cnt.items()} if ends else {}
    return out


def l1_distance(m1, m2):
    keys = set(m1) | set(m2)
    return sum(abs(m1.get(k, 0.0) - m2.get(k, 0.0)) for k in keys)
