"""RNG seam: every random decision the library asks for is answered by the simulator.

`SimRandom` subclasses `random.Random` and overrides only the primitives (`_randbelow`, `random`,
`getrandbits`).  `shuffle`, `choice`, `choices`, `randrange`, `sample` remain CPython's real
algorithms running on top of decisions the simulator supplies.  `install()` must run before gcmpy
is imported so that `from random import choice` style imports bind to the simulator too.
"""
import math
import random as _random_mod
import sys

_RealRandom = _random_mod.Random

F_LO = 0.0
F_EPS = 2.0 ** -53
F_HI = 1.0 - 2.0 ** -53
FLOAT_EXTREMES = (F_LO, F_EPS, F_HI, 0.5)


class SimAbort(BaseException):
    """Injected abort (like KeyboardInterrupt) raised by the RNG seam at a chosen decision."""


class SimBudget(BaseException):
    """Decision budget of the running operation exhausted (bounded runs)."""


class SimFault(Exception):
    """Injected fault raised by an instrumented callback or operand."""


class HarnessError(Exception):
    """Anything that is the simulator's fault, never the library's."""


DEFAULT_POLICY = {"int": "uniform", "float": "uniform", "shuffle": "uniform", "p": 0.0}


def perm_decisions(target):
    """Fisher-Yates (CPython order: i = n-1 .. 1, j = randbelow(i+1), swap x[i], x[j]) decisions
    that turn [0..n-1] into `target` (a permutation given as list of original indexes)."""
    n = len(target)
    cur = list(range(n))
    pos = list(range(n))
    out = []
    for i in range(n - 1, 0, -1):
        want = target[i]
        j = pos[want]
        out.append(j)
        a, b = cur[i], cur[j]
        cur[i], cur[j] = b, a
        pos[b] = i
        pos[a] = j
    return out


class Source:
    """One named decision stream.  Answers come from `script` while it lasts, then from the policy
    (generation mode) or are zero (replay mode).  Every answer is logged."""

    __slots__ = ("name", "prng", "policy", "script", "tail", "log", "budget", "abort_at",
                 "count", "last_int", "planned", "shuffle_calls", "sites", "aborted",
                 "extreme_hits", "sticky_hits", "site_counts", "op_count", "wide", "requests")

    def __init__(self, name, prng, policy=None, script=None, tail="policy", budget=None,
                 abort_at=None):
        self.name = name
        self.prng = prng
        self.policy = dict(DEFAULT_POLICY)
        if policy:
            self.policy.update(policy)
        self.script = list(script) if script else []
        self.tail = tail
        self.log = []
        self.budget = budget
        self.abort_at = abort_at
        self.count = 0          # decisions answered since last (re)start
        self.op_count = 0       # decisions answered in the current operation
        self.last_int = 0
        self.planned = []       # pre-planned ints for the current shuffle
        self.shuffle_calls = 0
        self.aborted = False
        self.extreme_hits = 0
        self.sticky_hits = 0
        self.site_counts = {}
        self.wide = 0           # integer decisions with at least two possible answers
        self.requests = None    # when a list: the size of every request, ("i", n) / ("f", 53) / ("b", k)

    # -- control ---------------------------------------------------------------------------
    def restart(self):
        """Re-read the stream from its beginning (prefix histories): what was logged so far becomes
        the script, the policy continues after it."""
        if len(self.log) > len(self.script):
            self.script = self.log
        self.log = []
        self.count = 0
        self.op_count = 0
        self.planned = []
        self.shuffle_calls = 0
        self.last_int = 0

    def begin_op(self, budget=None, abort_at=None):
        self.op_count = 0
        self.budget = budget
        self.abort_at = abort_at
        self.aborted = False

    def record(self):
        return self.log if len(self.log) >= len(self.script) else self.script

    # -- internals -------------------------------------------------------------------------
    def _tick(self, site):
        if self.abort_at is not None and self.op_count == self.abort_at:
            self.abort_at = None
            self.aborted = True
            raise SimAbort(f"injected abort at decision {self.op_count} of stream {self.name}")
        if self.budget is not None and self.op_count >= self.budget:
            raise SimBudget(f"decision budget {self.budget} exhausted on stream {self.name}")
        self.op_count += 1
        self.site_counts[site] = self.site_counts.get(site, 0) + 1

    def _scripted(self):
        i = len(self.log)
        if i < len(self.script):
            return True, self.script[i]
        return False, None

    def next_int(self, n, site):
        self._tick(site)
        if self.requests is not None:
            self.requests.append(("i", n))
        if n > 1:
            self.wide += 1
        has, v = self._scripted()
        if has:
            if isinstance(v, float):
                v = int(v * n)
            v = int(v) % n
            self.planned = []
        elif self.tail == "zero":
            v = 0
        else:
            v = self._policy_int(n, site)
        self.log.append(v)
        self.last_int = v
        return v

    def _policy_int(self, n, site):
        if self.planned:
            v = self.planned.pop()      # stored reversed
            if 0 <= v < n:
                return v
            self.planned = []
        pol = self.policy
        mode = pol.get("site", {}).get(site, pol["int"]) if "site" in pol else pol["int"]
        if site == "shuffle":
            mode = "uniform"  # shuffle steering is by plan; without a plan be uniform
        if mode == "mix":
            r = self.prng.random()
            p = pol.get("p", 0.2)
            if r < p:
                mode = ("min", "max", "sticky", "near", "near")[int(r / p * 5) % 5]
            else:
                mode = "uniform"
        if mode == "uniform":
            return self.prng.randrange(n)
        if mode == "min":
            self.extreme_hits += 1
            return 0
        if mode == "max":
            self.extreme_hits += 1
            return n - 1
        if mode == "sticky":
            self.sticky_hits += 1
            return self.last_int % n
        if mode == "near":
            # neighbouring index: in list-like draw structures adjacent slots are often related (edges of one vertex)
            self.sticky_hits += 1
            return (self.last_int + (1 if self.prng.random() < 0.5 else -1)) % n
        raise HarnessError(f"unknown int policy {mode!r}")

    def next_float(self, site):
        self._tick(site)
        if self.requests is not None:
            self.requests.append(("f", 53))
        has, v = self._scripted()
        if has:
            if not isinstance(v, float) or not (0.0 <= v < 1.0):
                v = 0.0
        elif self.tail == "zero":
            v = 0.0
        else:
            pol = self.policy
            mode = pol["float"]
            if mode == "mix":
                mode = "extreme" if self.prng.random() < pol.get("p", 0.2) else "uniform"
            if mode == "uniform":
                v = self.prng.random()
            elif mode == "extreme":
                self.extreme_hits += 1
                v = FLOAT_EXTREMES[self.prng.randrange(3)]
            elif mode == "lo":
                self.extreme_hits += 1
                v = F_LO
            elif mode == "hi":
                self.extreme_hits += 1
                v = F_HI
            else:
                raise HarnessError(f"unknown float policy {mode!r}")
        self.log.append(v)
        return v

    def next_bits(self, k, site):
        self._tick(site)
        if self.requests is not None:
            self.requests.append(("b", k))
        has, v = self._scripted()
        if has:
            v = int(v) % (1 << k) if k > 0 else 0
        elif self.tail == "zero":
            v = 0
        else:
            v = self.prng.getrandbits(k) if k > 0 else 0
        self.log.append(v)
        return v

    # -- shuffle steering ------------------------------------------------------------------
    def begin_shuffle(self, n):
        self.planned = []
        call = self.shuffle_calls
        self.shuffle_calls += 1
        if n < 2 or len(self.log) < len(self.script) or self.tail == "zero":
            return
        mode = self.policy["shuffle"]
        if isinstance(mode, list):
            mode = mode[call % len(mode)] if mode else "uniform"
        if mode == "uniform":
            return
        if mode == "identity":
            target = list(range(n))
        elif mode == "reverse":
            target = list(range(n - 1, -1, -1))
        elif mode == "rot":
            r = 1 + self.prng.randrange(n - 1)
            target = [(i + r) % n for i in range(n)]
        elif mode == "adjswap":
            target = list(range(n))
            for _ in range(1 + self.prng.randrange(3)):
                i = self.prng.randrange(n - 1)
                target[i], target[i + 1] = target[i + 1], target[i]
        elif mode == "sorted_blocks":
            # identity with a single random transposition: mostly "as if not shuffled"
            target = list(range(n))
            i, j = self.prng.randrange(n), self.prng.randrange(n)
            target[i], target[j] = target[j], target[i]
        else:
            raise HarnessError(f"unknown shuffle policy {mode!r}")
        self.extreme_hits += 1
        self.planned = perm_decisions(target)[::-1]

    def end_shuffle(self):
        self.planned = []


class SimRandom(_RealRandom):
    """The `random` module's hidden instance, with the entropy source replaced by a `Source`."""

    def __init__(self):
        self.src = None
        self.site = "raw"
        self.unscheduled = 0
        super().__init__(0)

    def seed(self, *a, **k):
        self.gauss_next = None

    def _source(self):
        s = self.src
        if s is None:
            self.unscheduled += 1
            raise HarnessError("global RNG used outside a simulated operation")
        return s

    def _randbelow(self, n):
        return self._source().next_int(n, self.site)

    def random(self):
        return self._source().next_float(self.site)

    def getrandbits(self, k):
        return self._source().next_bits(k, self.site)

    def randbytes(self, n):
        return self.getrandbits(n * 8).to_bytes(n, "little")

    # high level methods: real CPython algorithms, only labelled
    def shuffle(self, x):
        src = self._source()
        prev = self.site
        self.site = "shuffle"
        src.begin_shuffle(len(x))
        try:
            return super().shuffle(x)
        finally:
            self.site = prev
            src.end_shuffle()

    def _labelled(name):
        def method(self, *a, **k):
            prev = self.site
            self.site = name
            try:
                return getattr(_RealRandom, name)(self, *a, **k)
            finally:
                self.site = prev
        method.__name__ = name
        return method

    choice = _labelled("choice")
    choices = _labelled("choices")
    randrange = _labelled("randrange")
    randint = _labelled("randint")
    sample = _labelled("sample")
    uniform = _labelled("uniform")
    del _labelled


SIM = None


def install():
    """Replace the random module's hidden instance.  Call before importing gcmpy."""
    global SIM
    if SIM is not None:
        return SIM
    if any(m == "gcmpy" or m.startswith("gcmpy.") for m in sys.modules):
        raise HarnessError("install() must run before gcmpy is imported")
    sim = SimRandom()
    old = _random_mod._inst
    for name in dir(_random_mod):
        obj = getattr(_random_mod, name)
        if getattr(obj, "__self__", None) is old:
            setattr(_random_mod, name, getattr(sim, name))
    _random_mod._inst = sim
    SIM = sim
    return sim


def tripwire():
    """Fail (harness error) if a gcmpy module holds a bound method of a foreign Random."""
    for mname, mod in list(sys.modules.items()):
        if mod is None or not (mname == "gcmpy" or mname.startswith("gcmpy.")):
            continue
        for aname, obj in list(vars(mod).items()):
            owner = getattr(obj, "__self__", None)
            if isinstance(owner, _RealRandom) and owner is not SIM:
                raise HarnessError(f"{mname}.{aname} is bound to a Random the simulator does not own")
            if isinstance(obj, _RealRandom) and obj is not SIM:
                raise HarnessError(f"{mname}.{aname} is a Random the simulator does not own")


class using:
    """Context manager: route the global RNG to `source` for the duration of a library call."""

    def __init__(self, source):
        self.source = source

    def __enter__(self):
        if SIM is None:
            raise HarnessError("simrandom.install() was not called")
        self.prev = SIM.src
        SIM.src = self.source
        SIM.site = "raw"
        return self.source

    def __exit__(self, *exc):
        SIM.src = self.prev
        return False
