"""Rewiring simulation shared by C11 and C12: scenarios (clean motif network + target + limits +
draw schedule + abort plan) and prefix histories.

A run of rewire() is a pure function of the decision stream, so running the same stream with
convergence_limit = 0, 1, 2, ... yields the successive states of ONE swap history (limit L returns the
state after L+1 accepted swaps) without any hook inside rewire()."""
from collections import Counter

import networkx as nx

from gcmpy.tools.markov_chain_monte_carlo_rewiring import MarkovChainMonteCarloRewiring
from gcmpy.tools.joint_excess_joint_degree_matrices import JointExcessJointDegreeMatrices
from gcmpy.names.tools_names import ToolsNames

from . import netsim, interesting
from .netsim import JD, TOP, MID
from .engine import describe_exc


def excess_classes(jds, ntop):
    out = []
    for i in range(ntop):
        cls = set()
        for jd in jds:
            if jd[i] > 0:
                a = list(jd)
                a[i] -= 1
                cls.add(tuple(a))
        out.append(sorted(cls))
    return out


def used_pairs(spec):
    """Ordered excess pairs (per topology index) realised by the spec's edges."""
    jds = netsim.spec_jds(spec)
    out = [set() for _ in spec["topos"]]
    for m in spec["motifs"]:
        for i, t, pv in netsim.parts(spec, m):
            for u, v in netsim.motif_edges(t["kind"], pv):
                a = list(jds[u]); a[i] -= 1
                b = list(jds[v]); b[i] -= 1
                out[i].add((tuple(a), tuple(b)))
                out[i].add((tuple(b), tuple(a)))
    return out


def gen_target(prng, spec, mode, remove):
    """Symmetric target matrices over all pairs of excess classes; `remove`: none | absent | zero | mixed —
    a scheduler-chosen subset of pairings that no existing edge uses is removed."""
    jds = netsim.spec_jds(spec)
    ntop = len(spec["topos"])
    classes = excess_classes(jds, ntop)
    used = used_pairs(spec)
    target = {}
    removed = 0
    for i, t in enumerate(spec["topos"]):
        cl = classes[i]
        rows = []
        for x in range(len(cl)):
            for y in range(x, len(cl)):
                a, b = cl[x], cl[y]
                if mode == "uniform":
                    w = 1.0
                elif mode == "random":
                    w = round(prng.uniform(0.05, 1.0), 3)
                elif mode == "assortative":
                    w = 1.0 if a == b else 0.02
                elif mode == "disassortative":
                    w = 0.02 if a == b else 1.0
                else:
                    w = prng.choice((1e-6, 0.5, 1.0))
                if remove != "none" and (a, b) not in used[i] and prng.random() < 0.5:
                    removed += 1
                    how = remove if remove != "mixed" else prng.choice(("absent", "zero"))
                    if how == "absent":
                        continue
                    w = 0.0
                rows.append([list(a) + list(b), w])
                if a != b:
                    rows.append([list(b) + list(a), w])
        tot = sum(w for _, w in rows) or 1.0
        target[t["name"]] = [[k, w / tot] for k, w in rows]
    return target, removed


def build_target(sc):
    # order comes from the spec's topology LIST, never from the dict: replay files are written with sorted keys,
    # and the scenario must mean the same thing after a JSON round trip
    names_in_order = [n for n in netsim.names(sc["spec"]) if n in sc["target"]]
    order = sc.get("target_order")
    if order:
        # the caller may write the target matrices down in any order; only EDGE_NAMES fixes the index positions
        names_in_order = [names_in_order[i] for i in order if i < len(names_in_order)]
    ejks = {name: {tuple(k): w for k, w in sc["target"][name]} for name in names_in_order}
    return JointExcessJointDegreeMatrices({ToolsNames.EJKS: ejks, ToolsNames.EDGE_NAMES: netsim.names(sc["spec"])})


def gen_scenario(prng, tier, index, focus):
    big = tier == "thorough" and prng.random() < 0.5
    ntop = prng.choice((1, 1, 2, 2, 3))
    pool = netsim.TOPO_POOL
    if prng.random() < 0.25:
        pool = [t for t in pool if t["size"] == 2]          # all 2-cliques: the motif-id defect is invisible
    topos = [dict(t) for t in prng.sample(pool, min(ntop, len(pool)))]
    if prng.random() < 0.3:
        # a motif type whose edges carry two topology names under one motif id (corners with edges of several topologies)
        topos = netsim.add_composite(prng, topos)
    if all(t["size"] == 2 for t in topos):
        n = prng.randrange(6, 41 if big else 17)        # single edges swap freely even on tiny networks
    else:
        n = prng.randrange(12, 61 if big else 33)       # corners of >= 2 edges need room for absent target edges
    mult = prng.choice((0.5, 0.75, 1.0, 1.0, 1.5))
    if prng.random() < 0.06:
        # high vertex labels: a network of 300-700 vertices whose motifs all live on the top 14-24 labels (the rest
        # have joint degree zero): label-dependent behaviour (e.g. anything that distinguishes small ints) with
        # the density - and the cost - of a small network
        n = prng.randrange(300, 700)
        top = prng.randrange(14, 25)
        sub = netsim.gen_clean_spec(prng, top, topos, max(4, int(top * mult)))
        spec = {"n": n, "topos": topos, "motifs": [{"topo": m["topo"], "verts": [v + n - top for v in m["verts"]]} for m in sub["motifs"]]}
    else:
        spec = netsim.gen_clean_spec(prng, n, topos, max(4, int(n * mult)))
    if prng.random() < 0.25:
        spec["jd_type"] = prng.choice(("list", "mixed2", "mixed3"))
    if prng.random() < 0.2:
        spec["extra_attrs"] = [prng.choice(interesting.ATTR_NAMES[:12]), prng.choice(("int", "float", "str"))]
    variant = "faults" if index % 4 == 3 else "clean"
    mode = prng.choice(("uniform", "random", "assortative", "disassortative", "spiky"))
    remove = "none" if focus == "C11" and prng.random() < 0.7 else prng.choice(("none", "absent", "zero", "mixed"))
    target, removed = gen_target(prng, spec, mode, remove)
    sc = {"variant": variant, "spec": spec, "target": target, "target_mode": mode, "pairings_removed": removed,
          "search_limit": prng.choice((None, 1, 2, 3, 5, 10, 25)) if prng.random() > 0.05 else prng.choice((24, 26, 100, 1000, 2 ** 31)),
          "K": prng.randrange(1, 7 if not big else 10),
          "target_order": prng.sample(range(len(topos)), len(topos)) if prng.random() < (0.85 if focus == "C12" else 0.5) else None,
          "policy": prng.choice(({}, {}, {}, {"int": "mix", "p": 0.2}, {"int": "mix", "p": 0.4}, {"int": "mix", "p": 0.6}, {"float": "lo"},
                                 {"float": "hi"}, {"float": "extreme"}, {"float": "mix", "int": "mix", "p": 0.3},
                                 {"float": "mix", "p": 0.5})),
          "defaults": prng.choice(("none", "none", "construct", "run"))}
    if variant == "faults":
        sc["abort_frac"] = round(prng.random(), 3)
        if prng.random() < 0.5:
            # interrupt at an arbitrary executed LINE of library code instead of at a draw
            sc["abort_line"] = prng.choice((prng.randrange(0, 60), prng.randrange(0, 2000), prng.randrange(0, 40000)))
    if prng.random() < 0.3:
        sc["reuse_object"] = True       # one rewiring object for the whole history (limit raised through the setter)
    if prng.random() < 0.3:
        sc["node_order"] = [prng.choice(("reversed", "shuffled", "edges_first")), prng.randrange(2 ** 31)]
    if prng.random() < 0.3:
        t2, _ = gen_target(prng, spec, prng.choice(("uniform", "random", "assortative", "disassortative", "spiky")),
                           prng.choice(("none", "absent", "zero", "mixed")))
        sc["retarget"] = [t2, prng.choice((1, 2, 3))]
    if prng.random() < 0.3:
        sc["carry"] = [prng.randrange(2 ** 31), prng.choice((1, 2, 3, 5)), prng.choice(("same_size", "double"))]   # label permutation seed, accepted swaps on network B, size of B
    if prng.random() < 0.5:
        sc["chain"] = prng.choice((1, 1, 2, 3))     # accepted swaps of a second stage run on the first stage's result
    return sc


def params_for(sc, net, ejks, conv, search="scenario"):
    p = {ToolsNames.NETWORK: net, ToolsNames.EJKS: ejks}
    if conv is not None:
        p[ToolsNames.CONVERGENCE_LIMIT] = conv
    sl = sc.get("search_limit") if search == "scenario" else search
    if sl is not None:
        p[ToolsNames.SEARCH_LIMIT] = sl
    return p


def budget_for(limit, prev_decisions=None):
    """Decision budget of one prefix run: what the previous prefix consumed plus room for one more
    accepted swap (first run: a flat allowance)."""
    if prev_decisions is None:
        return 300 * (limit + 1) + 500
    return prev_decisions + 800


def run_history(sc, ctx, prefix, on_state, on_abort=None):
    """Drives the prefix history.  on_state(L, G_prev, G_new, last_float) for every completed prefix;
    returns dict with bookkeeping.  All C11.input / raised handling is done here (clauses use `prefix`)."""
    P = prefix
    try:
        net = netsim.build_network(sc["spec"])
        ejks = build_target(sc)
    except Exception as e:
        from .simrandom import HarnessError
        raise HarnessError(f"scenario construction failed: {e!r}")
    if sc.get("node_order"):
        # vertex insertion order differs from the labels (edge-list built / vertices added late); attributes kept
        net.G = netsim.reordered(net.G, sc["node_order"][0], sc["node_order"][1])
        ctx.probe("vertex_insertion_order_differs_from_labels")
    G0 = net.G
    if G0.number_of_edges() < 2:
        # no swap history exists on fewer than two edges (rewire() cannot even draw): outside every rewiring property
        ctx.probe("network_with_fewer_than_two_edges_skipped")
        ctx.inconclusive += 1
        return {"states": 0, "inconclusive": True, "max_decisions": 0}
    before = netsim.snapshot(G0)
    src = ctx.source("rewire", sc.get("policy"))
    info = {"states": 0, "inconclusive": False, "net": net, "G0": G0, "ejks": ejks, "before": before,
            "max_decisions": 0}
    prev = G0.copy()
    for L in range(sc["K"]):
        src.restart()
        if sc.get("reuse_object") and L > 0:
            # history on ONE rewiring object: the limit is raised through the public setter and rewire() is called again
            mc.convergence_limit = L
            ctx.probe("rewire_called_again_on_the_same_object")
        else:
            try:
                mc = MarkovChainMonteCarloRewiring(params_for(sc, net, ejks, L))
            except Exception as e:
                ctx.violate(f"{P}.raised", f"constructing the rewiring with an admissible dictionary raised {describe_exc(e)}")
                return info
        st, G = ctx.call(src, mc.rewire, budget=budget_for(L, info["max_decisions"] if L else None),
                         label=f"rewire[limit={L}]")
        info["max_decisions"] = max(info["max_decisions"], len(src.log))
        if netsim.snapshot(G0) != before:
            ctx.violate("C11.input", f"the given network was modified by rewire() (limit={L}, status={st})")
            return info
        ctx.check("C11.input")
        if st == "budget":
            ctx.inconclusive += 1
            info["inconclusive"] = True
            ctx.probe("prefix_budget_exhausted")
            break
        if st != "ok":
            ctx.violate(f"{P}.raised", f"rewire() after {L} accepted swaps: {st} "
                                       f"{describe_exc(G) if st == 'raised' else ''}")
            return info
        if not isinstance(G, nx.Graph):
            ctx.violate(f"{P}.raised", f"rewire() returned {type(G).__name__}")
            return info
        last_float = next((x for x in reversed(src.log) if isinstance(x, float)), None)
        info["states"] += 1
        cont = on_state(L, prev, G, last_float, info)
        prev = G
        if cont is False:
            break
    # STAGED rewiring: the graph one rewire() returned is wrapped in a Network and GIVEN to a second rewiring.  Only when the
    # first result is itself a clean motif network, i.e. all motifs are single edges (the recorded motif-id finding
    # scrambles multi-edge motifs); the second call's given network must come back untouched - attributes included.
    if (sc.get("chain") and info["states"] > 0 and cont is not False and not info["inconclusive"]
            and all(t["size"] == 2 and "chord_topo" not in t and not t.get("part_only") for t in sc["spec"]["topos"])):
        from gcmpy.network.network import Network
        net1 = Network()
        net1.G = prev
        before1 = netsim.snapshot(prev)
        src2 = ctx.source("rewire-stage2", sc.get("policy"))
        try:
            mc2 = MarkovChainMonteCarloRewiring(params_for(sc, net1, ejks, sc["chain"] - 1))
        except Exception as e:
            ctx.violate(f"{P}.raised", f"constructing the rewiring for a second stage raised {describe_exc(e)}")
            return info
        st, G2 = ctx.call(src2, mc2.rewire, budget=budget_for(sc["chain"]), label="rewire[stage 2]")
        ctx.check("C11.input")
        ctx.probe("staged_rewiring_second_stage")
        if netsim.snapshot(prev) != before1:
            ctx.violate("C11.input", f"the network GIVEN to a second rewiring stage (the result of the first, wrapped in a Network) was "
                                     f"modified by rewire() (status={st})")
            return info
        if st == "ok" and isinstance(G2, nx.Graph):
            on_state(info["states"], prev, G2, None, dict(info, G0=prev, net=net1, before=before1))
        elif st not in ("ok", "budget"):
            ctx.violate(f"{P}.raised", f"second rewiring stage: {st} {describe_exc(G2) if st == 'raised' else ''}")
            return info
    # The TARGET replaced on a live rewiring object through its public `ejks` setter (a parameter sweep over targets): the next
    # rewire() must follow the new target - created edges are judged against it
    if sc.get("retarget") and info["states"] > 0 and not info["inconclusive"] and "mc" in dir():
        rows2, want = sc["retarget"]
        single = all(t["size"] == 2 and "chord_topo" not in t and not t.get("part_only") for t in sc["spec"]["topos"])
        nsw = want if single else 1
        try:
            ejks2 = build_target(dict(sc, target=rows2, target_order=None))
        except Exception as e:
            from .simrandom import HarnessError
            raise HarnessError(f"scenario construction failed (second target): {e!r}")
        mc.network = net
        mc.ejks = ejks2
        mc.convergence_limit = nsw - 1
        src4 = ctx.source("rewire-retargeted", sc.get("policy"))
        st, G4 = ctx.call(src4, mc.rewire, budget=budget_for(nsw), label="rewire[target replaced through the setter]")
        ctx.check("C11.input")
        ctx.probe("target_replaced_on_a_live_object")
        if netsim.snapshot(G0) != before:
            ctx.violate("C11.input", f"the given network was modified by rewire() after the target was replaced (status={st})")
            return info
        if st == "ok" and isinstance(G4, nx.Graph):
            on_state(info["states"], G0, G4, None, dict(info, tgt={name: {tuple(k): w for k, w in rows} for name, rows in rows2.items()}))
        elif st not in ("ok", "budget"):
            ctx.violate(f"{P}.raised", f"rewire() after the target was replaced through the setter: {st} {describe_exc(G4) if st == 'raised' else ''}")
            return info
    # ONE rewiring object carried to ANOTHER network through its public setter (ensemble use): network B is the same spec with
    # the vertex labels permuted, so every label's joint degree may differ while the classes - hence the target - stay valid.
    # Anything the object remembered about network A per label is stale now; B's result is judged like any other state.
    if sc.get("carry") and info["states"] > 0 and not info["inconclusive"] and "mc" in dir():
        n = sc["spec"]["n"]
        import random as _r
        perm = list(range(n))
        _r.Random(sc["carry"][0]).shuffle(perm)
        specB = dict(sc["spec"], motifs=[dict(m, verts=[perm[v] for v in m["verts"]]) for m in sc["spec"]["motifs"]])
        if len(sc["carry"]) > 2 and sc["carry"][2] == "double":
            # ... or TWO disjoint relabelled copies of it: the same classes (the target stays valid), twice the vertices and edges
            perm2 = list(range(n))
            _r.Random(sc["carry"][0] + 1).shuffle(perm2)
            specB = dict(sc["spec"], n=2 * n, motifs=specB["motifs"] + [dict(m, verts=[n + perm2[v] for v in m["verts"]]) for m in sc["spec"]["motifs"]])
        try:
            netB = netsim.build_network(specB)
        except Exception as e:
            from .simrandom import HarnessError
            raise HarnessError(f"scenario construction failed (network B): {e!r}")
        beforeB = netsim.snapshot(netB.G)
        # one accepted swap per judged step on multi-edge motifs (the recorded motif-id finding is recognised by its
        # one-swap fingerprint); several at once only where every motif is a single edge
        single = all(t["size"] == 2 and "chord_topo" not in t and not t.get("part_only") for t in sc["spec"]["topos"])
        nsw = sc["carry"][1] if single else 1
        mc.network = netB
        mc.ejks = ejks                     # the original target (a retarget stage may have replaced it): B's result is judged against it
        mc.convergence_limit = nsw - 1
        src3 = ctx.source("rewire-carried", sc.get("policy"))
        st, G3 = ctx.call(src3, mc.rewire, budget=budget_for(nsw), label="rewire[object carried to another network]")
        ctx.check("C11.input")
        ctx.probe("rewiring_object_carried_to_another_network")
        if netsim.snapshot(netB.G) != beforeB:
            ctx.violate("C11.input", f"the second network given to one rewiring object (through its setter) was modified by rewire() (status={st})")
            return info
        if st == "ok" and isinstance(G3, nx.Graph):
            on_state(info["states"], netB.G, G3, None, dict(info, G0=netB.G, net=netB, before=beforeB, spec=specB))
        elif st not in ("ok", "budget"):
            ctx.violate(f"{P}.raised", f"rewire() on a second network given to the same object: {st} {describe_exc(G3) if st == 'raised' else ''}")
            return info
    # abort at a scheduler-chosen draw of the longest run, then the input must be untouched
    if sc["variant"] == "faults" and info["max_decisions"] > 0:
        at = int(sc.get("abort_frac", 0.5) * info["max_decisions"])
        src.restart()
        try:
            mc = MarkovChainMonteCarloRewiring(params_for(sc, net, ejks, max(0, sc["K"] - 1)))
        except Exception as e:
            ctx.violate(f"{P}.raised", f"constructing the rewiring raised {describe_exc(e)}")
            return info
        if sc.get("abort_line") is not None:
            st, G = ctx.call(src, mc.rewire, budget=budget_for(sc["K"]), abort_at_line=sc["abort_line"], label="rewire[abort at line]")
        else:
            st, G = ctx.call(src, mc.rewire, budget=budget_for(sc["K"]), abort_at=at, label="rewire[abort]")
        ctx.check("C11.input")
        if netsim.snapshot(G0) != before:
            ctx.violate("C11.input", f"the given network was modified by a rewire() aborted at draw {at}")
        if st == "abort":
            ctx.probe("aborted_mid_rewire")
            if on_abort:
                on_abort(info)
    return info


def edge_set(G):
    return {frozenset((u, v)) if u != v else frozenset((u,)) for u, v in G.edges()}


def created_edges(G_prev, G_new):
    a, b = edge_set(G_prev), edge_set(G_new)
    return [tuple(sorted(e)) if len(e) == 2 else (next(iter(e)),) * 2 for e in (b - a)], \
           [tuple(sorted(e)) if len(e) == 2 else (next(iter(e)),) * 2 for e in (a - b)]
