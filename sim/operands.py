"""Operand seam: phi and the per-vertex u values are duck-typed in gcmpy, so the simulator can pass
exact rationals, polynomial symbols, or operands that fail at a chosen arithmetic operation."""
from fractions import Fraction

from .simrandom import SimFault


def _frac(x):
    if isinstance(x, Exact):
        return x.v
    if isinstance(x, Fraction):
        return x
    if isinstance(x, bool):
        raise TypeError("bool operand")
    if isinstance(x, int):
        return Fraction(x)
    if isinstance(x, float):
        return Fraction(x)      # exact: the library's literals 0.0 / 1.0 convert exactly
    return None


class OpCounter:
    """Shared by all operands of one evaluation: counts arithmetic operations, faults at the k-th."""

    def __init__(self, fail_at=None):
        self.n = 0
        self.fail_at = fail_at
        self.fired = False

    def tick(self):
        if self.fail_at is not None and self.n == self.fail_at:
            self.fail_at = None
            self.fired = True
            raise SimFault(f"injected operand failure at arithmetic operation {self.n}")
        self.n += 1


class Exact:
    """Fraction wrapper; every arithmetic result is exact.  With a counter it doubles as the
    fault-injecting operand."""
    __slots__ = ("v", "c")

    def __init__(self, v, c=None):
        self.v = v if isinstance(v, Fraction) else Fraction(v)
        self.c = c

    def _mk(self, v, other=None):
        c = self.c
        if c is None and isinstance(other, Exact):
            c = other.c
        if c is not None:
            c.tick()
        return Exact(v, c)

    def __add__(self, o):
        f = _frac(o)
        return NotImplemented if f is None else self._mk(self.v + f, o)

    __radd__ = __add__

    def __sub__(self, o):
        f = _frac(o)
        return NotImplemented if f is None else self._mk(self.v - f, o)

    def __rsub__(self, o):
        f = _frac(o)
        return NotImplemented if f is None else self._mk(f - self.v, o)

    def __mul__(self, o):
        f = _frac(o)
        return NotImplemented if f is None else self._mk(self.v * f, o)

    __rmul__ = __mul__

    def __truediv__(self, o):
        f = _frac(o)
        return NotImplemented if f is None else self._mk(self.v / f, o)

    def __rtruediv__(self, o):
        f = _frac(o)
        return NotImplemented if f is None else self._mk(f / self.v, o)

    def __pow__(self, n):
        if not isinstance(n, int) or isinstance(n, bool):
            if isinstance(n, float) and n == int(n):
                n = int(n)
            else:
                return NotImplemented
        return self._mk(self.v ** n)

    def __neg__(self):
        return self._mk(-self.v)

    def __eq__(self, o):
        f = _frac(o)
        return NotImplemented if f is None else self.v == f

    def __lt__(self, o):
        return self.v < _frac(o)

    def __le__(self, o):
        return self.v <= _frac(o)

    def __gt__(self, o):
        return self.v > _frac(o)

    def __ge__(self, o):
        return self.v >= _frac(o)

    def __hash__(self):
        return hash(self.v)

    def __float__(self):
        return float(self.v)

    def __repr__(self):
        return f"Exact({self.v})"


class Poly:
    """Multivariate polynomial over Q: {monomial: Fraction}, monomial = sorted tuple of (var, exp)."""
    __slots__ = ("t",)

    def __init__(self, terms=None):
        self.t = {k: v for k, v in (terms or {}).items() if v != 0}

    @staticmethod
    def var(name):
        return Poly({((name, 1),): Fraction(1)})

    @staticmethod
    def const(x):
        return Poly({(): Fraction(x)})

    @staticmethod
    def _coerce(o):
        if isinstance(o, Poly):
            return o
        if isinstance(o, Exact):
            return Poly.const(o.v)
        if isinstance(o, bool):
            return None
        if isinstance(o, (int, float, Fraction)):
            return Poly.const(Fraction(o))
        return None

    def __add__(self, o):
        o = Poly._coerce(o)
        if o is None:
            return NotImplemented
        t = dict(self.t)
        for k, v in o.t.items():
            t[k] = t.get(k, 0) + v
        return Poly(t)

    __radd__ = __add__

    def __neg__(self):
        return Poly({k: -v for k, v in self.t.items()})

    def __sub__(self, o):
        o = Poly._coerce(o)
        return NotImplemented if o is None else self + (-o)

    def __rsub__(self, o):
        o = Poly._coerce(o)
        return NotImplemented if o is None else o + (-self)

    def __mul__(self, o):
        o = Poly._coerce(o)
        if o is None:
            return NotImplemented
        t = {}
        for k1, v1 in self.t.items():
            d1 = dict(k1)
            for k2, v2 in o.t.items():
                d = dict(d1)
                for x, e in k2:
                    d[x] = d.get(x, 0) + e
                k = tuple(sorted(d.items()))
                t[k] = t.get(k, 0) + v1 * v2
        return Poly(t)

    __rmul__ = __mul__

    def __pow__(self, n):
        if isinstance(n, float) and n == int(n):
            n = int(n)
        if not isinstance(n, int) or n < 0:
            return NotImplemented
        r = Poly.const(1)
        b = self
        while n:
            if n & 1:
                r = r * b
            b = b * b
            n >>= 1
        return r

    def __eq__(self, o):
        o = Poly._coerce(o)
        return NotImplemented if o is None else self.t == o.t

    def __hash__(self):
        return hash(tuple(sorted(self.t.items())))

    def evaluate(self, env):
        tot = Fraction(0)
        for k, c in self.t.items():
            x = c
            for var, e in k:
                x *= Fraction(env[var]) ** e
            tot += x
        return tot

    def degree(self):
        return max((sum(e for _, e in k) for k in self.t), default=0)

    def __repr__(self):
        if not self.t:
            return "Poly(0)"
        parts = []
        for k in sorted(self.t):
            mono = "*".join(f"{v}^{e}" if e != 1 else v for v, e in k)
            parts.append(f"{self.t[k]}" + (f"*{mono}" if mono else ""))
        return "Poly(" + " + ".join(parts[:8]) + (" + ..." if len(parts) > 8 else "") + ")"
