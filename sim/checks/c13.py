"""C13 — mixing matrices extracted from a network are exact, symmetric and repeatable.

Histories of repeated get_ejks() calls on one extractor, interleaved with fresh extractors, on
annotated networks built directly (clean motif networks) or produced by the real network generator
under the scheduler; every call compared with a direct per-edge-end tally.
"""
import networkx as nx

import gcmpy.tools.joint_excess_joint_degree as _jejd_module
import gcmpy.tools.joint_excess_joint_degree_matrices as _mat_module
from gcmpy.tools.joint_excess_joint_degree import JointExcessJointDegree
from gcmpy.tools.joint_excess_degree import JointExcessDegree
from gcmpy.names.tools_names import ToolsNames

from .. import netsim, setseam, interesting
from ..engine import describe_exc

setseam.install(_jejd_module)
setseam.install(_mat_module)

ID = "C13"
RUNS = {"quick": 24000, "thorough": 200000, "thorough_s": 240}
CHUNK = 200
TOL = 1e-12
RUN_TIMEOUT = 600.0
RULE = ("seeded annotated networks with 1-3 topologies (cliques 2-4, 4-/5-cycles, names such as '2-clique-blue'): clean "
        "motif networks from a direct constructor (4..40 vertices) or outputs of the real network generator under "
        "scheduled shuffles (self-loops removed), plus ONE network of ~6e5-7e5 edges (complete graph on 1100-1200 vertices with pendant "
        "vertices, per-topology AND overall-degree extraction) per invocation; stray string-keyed attributes ('topology', 'joint_degree', ...) with generic values or with the "
        "scenario's own topology names as values; 30% of the networks rebuilt with another vertex INSERTION order (reversed / shuffled / edges "
        "first) and other labels (offset, mirrored, with gaps); vertex annotations stored as tuples, as lists, or as lists and tuples SIDE BY SIDE in one network; "
        "30% of the topology lists contain a motif type whose edges carry two topology names under one motif id (diamond rim + "
        "chord, ...); histories of 1..5 operations on one extractor (get_ejks again, fresh "
        "extractor, overall-degree variant, an extraction interrupted at a library line, an IN-PLACE EDIT of the network (an edge "
        "removed) after which extractions are judged against the edited network); non-trivial = network has >= 2 edges and the history has >= 2 extractions; "
        "distinct = distinct execution digests")
ASSUMPTIONS = ["reference = direct tally over ordered edge ends; float tolerance 1e-12 + 4.5e-16 x (edge ends of the topology), i.e. "
               "accumulated rounding of the additions that make up a cell and nothing more (a fixed 1e-12 false-alarmed on a "
               "1.4e6-edge-end network: DESIGN §11)",
               "a topology without edges must yield an empty matrix (sum clause vacuous)"]
REAL = ["gcmpy.tools.joint_excess_joint_degree.JointExcessJointDegree", "JointExcessJointDegreeMatrices",
        "gcmpy.tools.joint_excess_degree.JointExcessDegree", "GCMAlgorithmNetwork + EdgeListToNetwork (network source)"]
STUB = ["entropy source (decision stream)", "direct clean-network constructor (for the 'direct' source)"]


def generate(prng, tier, index):
    if index == 0 or (tier == "thorough" and index % 4000 == 0):
        # scale: matrix cells are multiples of 0.5 / E_t, so anything that treats "small" cells specially (cut-offs,
        # float accumulation) only shows on a topology with ~1e6 edge ends; one such network per invocation
        return {"variant": "clean", "source": "huge", "topos": [{"kind": "clique", "size": 2, "name": "2-clique"}],
                "clique": prng.choice((1100, 1150, 1200)), "pendants": prng.randrange(1, 4), "ops": ["same", "overall"],
                "names_prefix": 1}
    big = tier == "thorough" or prng.random() < 0.1
    ntop = prng.randrange(1, 4) if prng.random() > 0.05 else prng.randrange(4, 7)
    topos = [dict(t) for t in prng.sample(netsim.TOPO_POOL, ntop)]
    source = prng.choice(("direct", "direct", "generator"))
    n = prng.randrange(4, 41 if big else 15)
    if source == "direct" and prng.random() < 0.3:
        topos = netsim.add_composite(prng, topos)       # a motif type whose edges carry two topology names
        ntop = len(topos)
    sc = {"variant": "clean", "source": source, "topos": topos}
    if source == "direct":
        sc["spec"] = netsim.gen_clean_spec(prng, n, topos, prng.randrange(1, 2 * n))
    else:
        from ..gensim import _distribute
        cols = [_distribute(prng, prng.randrange(1, n) * t["size"], n, prng.choice(("all", "few"))) for t in topos]
        sc["jds"] = [[c[v] for c in cols] for v in range(n)]
        sc["policy"] = {"shuffle": prng.choice(("uniform", "uniform", "identity", "adjswap"))}
    ops = ["same"]
    for _ in range(prng.randrange(0, 5)):
        ops.append(prng.choice(("same", "same", "fresh", "overall", "same_interrupted", "edit")))
    sc["ops"] = ops
    sc["names_prefix"] = prng.choice((ntop, ntop, ntop, max(1, ntop - 1)))
    sc["set_order"] = prng.choice(("natural", "natural", "reversed", "shuffled"))
    if prng.random() < 0.3:
        sc["extra_attrs"] = [prng.choice(interesting.ATTR_NAMES[:12]), prng.choice(("int", "float", "str"))]
        if prng.random() < 0.4:
            # a stray attribute under a plain-string name that LOOKS like the real annotation (the annotations proper are keyed
            # by Enum members): its values are the scenario's own topology names, dealt out so that they disagree with the truth
            sc["extra_attrs"] = [prng.choice(("topology", "topology", "motif_ids", "joint_degree", "name", "type")), "names",
                                 [t["name"] for t in topos]]
    if prng.random() < 0.3:
        # vertex INSERTION order differs from the labels (graph built from an edge list / relabelled / vertices added late)
        sc["node_order"] = [prng.choice(("reversed", "shuffled", "edges_first")), prng.randrange(2 ** 31),
                            prng.choice((None, None, "offset", "mirror", "gaps"))]
    if prng.random() < 0.3:
        # representation of the vertex annotations: lists, or lists and tuples side by side in one network
        jt = prng.choice(("list", "mixed2", "mixed3"))
        if source == "direct":
            sc["spec"]["jd_type"] = jt
        else:
            sc["jd_type"] = jt
    if prng.random() < 0.25:
        # round 13: after the history, the overall-degree extractor also runs on a copy in which one vertex is LABELLED by
        # the tuple (u, v) of two adjacent vertices (and another by (v, u)); the value picks the edge
        sc["tuple_label"] = prng.randrange(2 ** 31)
    return sc


def check_matrices(sc, ctx, G, names, res, tag):
    P = "C13"
    ref = netsim.ref_ejks(G, names)
    try:
        ejks = res.ejks
        keys = res.excess_degree_keys
    except Exception as e:
        ctx.violate(f"{P}.raised", f"result lacks ejks / excess_degree_keys: {describe_exc(e)}{tag}")
        return None
    ctx.check(f"{P}.exact")
    ctx.check(f"{P}.symmetric")
    ctx.check(f"{P}.sum")
    ctx.check(f"{P}.rows")
    ctx.check(f"{P}.keys")
    if sorted(ejks) != sorted(names):
        ctx.violate(f"{P}.exact", f"matrices for topologies {sorted(ejks)}, asked for {sorted(names)}{tag}")
        return None
    for i, name in enumerate(names):
        m = ejks[name]
        r = ref[name]
        ends = 2 * sum(1 for _, _, d in G.edges(data=True) if d.get(netsim.TOP) == name)
        # a cell is a sum of up to `ends` float additions of 0.5/E: allow accumulated rounding (n * eps), nothing more;
        # 1e-12 for ordinary sizes, ~6e-10 at 1.3e6 edge ends - far below any cell, which is at least 0.5/E
        tol = TOL + 4.5e-16 * ends
        if set(m) != set(r):
            extra = sorted(set(m) - set(r))[:2]
            miss = sorted(set(r) - set(m))[:2]
            ctx.violate(f"{P}.exact", f"topology {name!r}: matrix support differs from the network's edge ends "
                                      f"(unexpected {extra}, missing {miss}){tag}")
            return None
        for k in sorted(r):
            if abs(m[k] - r[k]) > tol:
                ctx.violate(f"{P}.exact", f"topology {name!r}: entry {k} = {m[k]!r}, fraction of edge ends is {r[k]!r}{tag}")
                return None
        h = len(next(iter(m))) // 2 if m else 0
        for k in m:
            if abs(m[k] - m.get(k[h:] + k[:h], -1.0)) > tol:
                ctx.violate(f"{P}.symmetric", f"topology {name!r}: entry {k} = {m[k]!r} but transposed entry is "
                                              f"{m.get(k[h:] + k[:h])!r}{tag}")
                return None
            if k[:h] == k[h:]:
                ctx.probe("self_paired_class")
        if m and abs(sum(m.values()) - 1.0) > 1e-9 + 10 * tol:
            ctx.violate(f"{P}.sum", f"topology {name!r}: matrix sums to {sum(m.values())!r}, not 1{tag}")
            return None
        rows = {}
        rrows = {}
        for k, x in m.items():
            rows[k[:h]] = rows.get(k[:h], 0.0) + x
        for k, x in r.items():
            rrows[k[:h]] = rrows.get(k[:h], 0.0) + x
        if set(rows) != set(rrows) or any(abs(rows[a] - rrows[a]) > 1e-9 + 10 * tol for a in rows):
            ctx.violate(f"{P}.rows", f"topology {name!r}: row sums differ from the excess distribution of edge ends{tag}")
            return None
        kl = keys.get(name) if isinstance(keys, dict) else None
        halves = {k[:h] for k in m} | {k[h:] for k in m}
        if kl is None or not halves <= set(map(tuple, kl)) or len(set(map(tuple, kl))) != len(kl):
            ctx.violate(f"{P}.keys", f"topology {name!r}: excess_degree_keys {kl!r} do not cover the matrix's classes "
                                     f"{sorted(halves)} exactly once each{tag}")
            return None
    return {n: dict(ejks[n]) for n in names}


def execute(sc, ctx):
    mode = sc.get("set_order", "natural")
    before_it = setseam.ITERATIONS
    with setseam.ordering(mode, ctx.source("setorder", None)):
        _execute(sc, ctx)
    if mode != "natural" and setseam.ITERATIONS > before_it:
        ctx.fault("set_iteration_order")


def _execute(sc, ctx):
    P = "C13"
    topos = sc["topos"]
    src = ctx.source("gen", sc.get("policy"))
    if sc["source"] == "huge":
        k, pend = sc["clique"], sc["pendants"]
        G = nx.complete_graph(k)
        # a tail of `pend` vertices hanging off vertex 0: every class pair along it occurs exactly once, so the matrix
        # has cells at the smallest possible scale 1 / (2 E) whatever `pend` is
        prev = 0
        for j in range(pend):
            G.add_edge(prev, k + j)
            prev = k + j
        name = topos[0]["name"]
        for v in G.nodes():
            G.nodes[v][netsim.JD] = (G.degree(v),)
        for mid, (u, v) in enumerate(G.edges()):
            d = G.edges[u, v]
            d[netsim.TOP] = name
            d[netsim.MID] = mid
        ctx.probe("huge_network_edges", G.number_of_edges())
    elif sc["source"] == "direct":
        net = netsim.build_network(sc["spec"])
        G = net.G
    else:
        st, net = netsim.pipeline_network(ctx, src, topos, None, len(sc["jds"]), sample=False,
                                          jds=[tuple(r) for r in sc["jds"]])
        if st != "ok":
            ctx.inconclusive += 1
            return
        G = net.G
        loops = list(nx.selfloop_edges(G))
        if loops:
            G.remove_edges_from(loops)
            ctx.probe("self_loops_removed")
    netsim.decorate(G, sc.get("extra_attrs"))
    netsim.retype_annotations(G, sc.get("jd_type"))
    if sc.get("node_order"):
        G = netsim.reordered(G, *sc["node_order"])
        ctx.probe("vertex_insertion_order_differs_from_labels")
    if (sc.get("jd_type") or (sc.get("spec") or {}).get("jd_type") or "").startswith("mixed"):
        ctx.probe("mixed_annotation_types")
    names = netsim.names({"topos": topos})[: sc.get("names_prefix", len(topos))]
    before = netsim.snapshot(G) if sc["source"] != "huge" else (G.number_of_nodes(), G.number_of_edges())

    def fresh():
        return JointExcessJointDegree({ToolsNames.NETWORK: G, ToolsNames.EDGE_NAMES: list(names)})

    try:
        ext = fresh()
    except Exception as e:
        ctx.violate(f"{P}.raised", f"constructing the extractor raised {describe_exc(e)}")
        return
    first = None
    calls_same = 0
    extractions = 0
    for k, op in enumerate(sc["ops"]):
        if op == "overall":
            st, m = ctx.call(src, JointExcessDegree.get_ejk, G, label="overall")
            ctx.check(f"{P}.overall")
            if st != "ok":
                ctx.violate(f"{P}.raised", f"JointExcessDegree.get_ejk: {st} {describe_exc(m) if st == 'raised' else ''}")
                return
            ref = {}
            E = G.number_of_edges()
            for u, v in G.edges():
                a, b = G.degree(u) - 1, G.degree(v) - 1
                ref[(a, b)] = ref.get((a, b), 0) + 1
                ref[(b, a)] = ref.get((b, a), 0) + 1
            ref = {k2: c / (2 * E) for k2, c in ref.items()}
            tol_o = TOL + 4.5e-16 * 2 * E          # accumulated rounding of up to 2E additions per cell, as for the per-topology matrices
            if set(m) != set(ref) or any(abs(m[k2] - ref[k2]) > tol_o for k2 in ref):
                ctx.violate(f"{P}.overall", f"overall-degree matrix differs from the fraction of edge ends: got "
                                            f"{sorted(m.items())[:3]}, expected {sorted(ref.items())[:3]}")
                return
            continue
        if op == "edit":
            # the caller edits the network IN PLACE between two extractions on the same extractor (removes an edge of a
            # topology that keeps at least two); later extractions are judged against the network as it then is
            per = {}
            for u, v, d in G.edges(data=True):
                per.setdefault(d.get(netsim.TOP), []).append((u, v))
            cands = [e for es in per.values() if len(es) >= 3 for e in es]
            if cands:
                G.remove_edge(*cands[(k * 7 + 3) % len(cands)])
                first = None
                before = netsim.snapshot(G) if sc["source"] != "huge" else (G.number_of_nodes(), G.number_of_edges())
                ctx.probe("network_edited_in_place_between_extractions")
            continue
        if op == "same_interrupted":
            # interrupt an extraction on the SAME extractor at an arbitrary executed line; the next calls must be right
            at = (k * 37 + len(sc["ops"]) * 11) % 160
            st, _ = ctx.call(src, ext.get_ejks, abort_at_line=at, label="get_ejks[interrupted]")
            if st == "abort":
                ctx.probe("extraction_interrupted")
            continue
        if op == "fresh":
            try:
                e2 = fresh()
            except Exception as e:
                ctx.violate(f"{P}.raised", f"constructing the extractor raised {describe_exc(e)}")
                return
            st, res = ctx.call(src, e2.get_ejks, label="get_ejks[fresh]")
            tag = f" (fresh extractor, op#{k})"
        else:
            calls_same += 1
            st, res = ctx.call(src, ext.get_ejks, label="get_ejks[same]")
            tag = f" (call {calls_same} on the same extractor)"
            if calls_same > 1:
                ctx.probe("repeated_extraction")
        if st != "ok":
            ctx.violate(f"{P}.raised", f"get_ejks: {st} {describe_exc(res) if st == 'raised' else ''}{tag}")
            return
        extractions += 1
        got = check_matrices(sc, ctx, G, names, res, tag)
        if got is None:
            return
        if op == "same":
            if first is None:
                first = got
            else:
                ctx.check(f"{P}.repeat")
                if got != first:
                    ctx.violate(f"{P}.repeat", f"matrices differ from the first call on the same extractor{tag}")
                    return
        ctx.result(op, sorted((n, sorted(m.items())) for n, m in got.items()))
    after = netsim.snapshot(G) if sc["source"] != "huge" else (G.number_of_nodes(), G.number_of_edges())
    ctx.expect(f"{P}.input", after == before, "the network was modified by extraction")
    ctx.nt = G.number_of_edges() >= 2 and extractions >= 2
    if sc.get("tuple_label") is not None and sc["source"] != "huge":
        tuple_label_step(sc, ctx, src, G)


def tuple_label_step(sc, ctx, src, G):
    """A valid network in which a vertex is labelled by the tuple of two ADJACENT vertices' labels, in both orientations:
    anything that hands an edge tuple to a networkx view that also accepts a single vertex then reads it as that vertex."""
    P = "C13"
    edges = [(u, v) for u, v in G.edges() if u != v]
    if not edges:
        return
    u, v = edges[sc["tuple_label"] % len(edges)]
    others = [w for w in G.nodes() if w != u and w != v]
    if not others or (u, v) in G or (v, u) in G:
        return
    mapping = {others[0]: (u, v)}
    if len(others) > 1:
        mapping[others[-1]] = (v, u)
    H = nx.relabel_nodes(G, mapping, copy=True)
    ctx.probe("vertex_labelled_by_the_tuple_of_an_adjacent_pair")
    st, m = ctx.call(src, JointExcessDegree.get_ejk, H, label="overall[tuple-labelled vertex]")
    ctx.check(f"{P}.overall")
    if st != "ok":
        ctx.violate(f"{P}.raised", f"JointExcessDegree.get_ejk on a network with a vertex labelled {(u, v)!r}: {st} "
                                   f"{describe_exc(m) if st == 'raised' else ''}")
        return
    deg = dict(H.degree())
    ref = {}
    E = H.number_of_edges()
    for a0, b0 in H.edges():
        a, b = deg[a0] - 1, deg[b0] - 1
        ref[(a, b)] = ref.get((a, b), 0) + 1
        ref[(b, a)] = ref.get((b, a), 0) + 1
    ref = {k2: c / (2 * E) for k2, c in ref.items()}
    tol_o = TOL + 4.5e-16 * 2 * E
    if set(m) != set(ref) or any(abs(m[k2] - ref[k2]) > tol_o for k2 in ref):
        ctx.violate(f"{P}.overall", f"overall-degree matrix of a network with a vertex labelled {(u, v)!r} differs from the "
                                    f"fraction of edge ends: got {sorted(m.items())[:3]}, expected {sorted(ref.items())[:3]}")


def nontrivial(sc, ctx):
    return getattr(ctx, "nt", False)


def shrink(sc):
    ops = sc["ops"]
    for i in range(len(ops) - 1, -1, -1):
        if len(ops) > 1:
            yield dict(sc, ops=ops[:i] + ops[i + 1:])
    if sc["source"] == "direct":
        sp = sc["spec"]
        ms = sp["motifs"]
        if len(ms) > 1:
            yield dict(sc, spec=dict(sp, motifs=ms[: len(ms) // 2]))
            yield dict(sc, spec=dict(sp, motifs=ms[len(ms) // 2:]))
        for i in range(len(ms)):
            if len(ms) > 1:
                yield dict(sc, spec=dict(sp, motifs=ms[:i] + ms[i + 1:]))
        used = {v for m in ms for v in m["verts"]}
        if used and max(used) + 1 < sp["n"]:
            yield dict(sc, spec=dict(sp, n=max(used) + 1))
    else:
        jds = sc["jds"]
        if len(jds) > 2 and all(x == 0 for x in jds[-1]):
            yield dict(sc, jds=jds[:-1])
        if sc.get("policy"):
            yield dict(sc, policy={})
