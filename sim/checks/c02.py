"""C02 — edge list columns stay parallel and motif identities are well formed.

Same generator simulation as C01 (one engine, two oracles) with the motif-shape axis stressed:
callbacks returning one bare edge, one edge in a tuple, exactly two edges, k edges; names homogeneous
or per edge.  Oracle compares the three columns against the instrumented callbacks' own log.
"""
from numbers import Integral
from collections import Counter

from gcmpy.names.network_names import NetworkNames

from .. import gensim
from ..engine import describe_exc

ID = "C02"
RUNS = {"quick": 64000, "thorough": 320000, "thorough_s": 300}
CHUNK = 1000
RULE = ("same seeded generator scenarios as C01 but with the motif-shape axis stressed (bare edge, one edge "
        "in a tuple/list, exactly two edges, k edges; homogeneous or per-edge names; topologies sharing a "
        "name), all three algorithm types, shuffle schedules and fault plans (callback failure / abort then "
        "reuse, also with a row-permuted sequence on the second generation); 10% of the fast / network scenarios pass the library's "
        "own builder OBJECTS and are judged structurally; non-trivial = at least one edge was emitted; distinct = distinct execution digests")
ASSUMPTIONS = ["for the network generator the columns are edge annotations; they are compared on vertex pairs the "
               "callback log shows were emitted exactly once (repeated pairs collapse in an nx.Graph: C04's statement)",
               "handshake-consistent inputs by construction"]
REAL = ["gcmpy.gcm_algorithm.* (fast, network, custom motifs, factory, main)", "gcmpy.network.*",
        "gcmpy.motif_generators.*", "CPython random.shuffle algorithm", "networkx"]
STUB = ["entropy source (decision stream)", "user build/name callbacks (instrumented)"]


def generate(prng, tier, index):
    return gensim.gen_scenario(prng, tier, index, "C02")


def expected_rows(sc, rec):
    """Per invocation (in call order): list of (edge, name)."""
    rows = []
    for e in rec.log:
        es = gensim.norm_edges(e["ret"]) if e["ret"] is not None else []
        j = e["topo"]
        if sc["algo"] in ("fast", "network"):
            names = [sc["topos"][j]["name"]] * len(es)
        else:
            nm = sc["motifs"][j]["names"]
            names = [nm] if isinstance(nm, str) else list(nm)
        rows.append(list(zip(es, names)))
    return rows


def evaluate(sc, ctx, st, val, rec, reuse):
    P = "C02"
    tag = " (generation after a fault on the same object)" if reuse else ""
    if st == "raised":
        ctx.violate(f"{P}.raised", f"generator raised {describe_exc(val)}{tag}")
        return 0
    if st != "ok":
        return 0
    rows = expected_rows(sc, rec)
    n_edges = sum(len(r) for r in rows)
    try:
        obs = gensim.observe(sc, val)
    except Exception as e:
        ctx.violate(f"{P}.raised", f"result of type {type(val).__name__} is not the documented object: {describe_exc(e)}")
        return 0
    if obs["kind"] == "list":
        edges, tops, ids = obs["edges"], obs["tops"], obs["ids"]
        if not ctx.expect(f"{P}.columns", len(edges) == len(tops) == len(ids),
                          lambda: f"column lengths differ: {len(edges)} edges, {len(tops)} names, {len(ids)} motif ids; "
                                  f"{n_edges} edges were returned by {len(rows)} build invocations{tag}"):
            return n_edges
        ctx.check(f"{P}.pairs")
        for x in edges:
            if not (isinstance(x, (tuple, list)) and len(x) == 2 and all(isinstance(a, Integral) for a in x)):
                ctx.violate(f"{P}.pairs", f"edge entry {x!r} is not a pair of vertex ids{tag}")
                return n_edges
        # groups: entries sharing an id == exactly one invocation's (edge, name) rows
        ctx.check(f"{P}.groups")
        ctx.check(f"{P}.names")
        groups = {}
        try:
            for e, t, i in zip(edges, tops, ids):
                groups.setdefault(i, []).append((tuple(e), t))
        except TypeError as ex:
            ctx.violate(f"{P}.groups", f"unhashable motif id: {ex}{tag}")
            return n_edges
        want = [r for r in rows if r]
        got_e = Counter(tuple(e for e, _ in g) for g in groups.values())
        want_e = Counter(tuple(e for e, _ in r) for r in want)
        if got_e != want_e or len(groups) != len(want):
            ctx.violate(f"{P}.groups", f"{len(groups)} distinct motif ids for {len(want)} edge-bearing motif instances; "
                                       f"groups not matching an invocation: {list((got_e - want_e).elements())[:2]}, "
                                       f"invocations without their own group: {list((want_e - got_e).elements())[:2]}{tag}")
        else:
            got_n = Counter(tuple(g) for g in groups.values())
            want_n = Counter(tuple(r) for r in want)
            if got_n != want_n:
                ctx.violate(f"{P}.names", f"edges carry names {list((got_n - want_n).elements())[:1]} where the topology / "
                                          f"naming callback prescribes {list((want_n - got_n).elements())[:1]}{tag}")
        if sc["algo"] == "motifs":
            for j, m in enumerate(sc["motifs"]):
                if m["ret"] == "bare":
                    ctx.probe("bare_edge_motif")
                elif len(m["edges"]) == 2:
                    ctx.probe("two_edge_motif")
                elif len(m["edges"]) == 1:
                    ctx.probe("one_edge_in_container")
    else:
        G = obs["G"]
        # pairs emitted exactly once over all invocations
        cnt = Counter(frozenset(e) for r in rows for e, _ in r)
        inv_of = {}
        for k, r in enumerate(rows):
            for e, nm in r:
                fs = frozenset(e)
                if cnt[fs] == 1:
                    inv_of[fs] = (k, nm)
        ctx.check(f"{P}.columns")
        ctx.check(f"{P}.names")
        ctx.check(f"{P}.groups")
        id_of_inv = {}
        inv_of_id = {}
        for fs, (k, nm) in sorted(inv_of.items(), key=lambda kv: sorted(kv[0])):
            uv = tuple(fs) if len(fs) == 2 else (next(iter(fs)),) * 2
            if not G.has_edge(*uv):
                ctx.violate(f"{P}.columns", f"pair {sorted(uv)} emitted once by invocation {k} is not an edge of the network{tag}")
                return n_edges
            d = G.edges[uv]
            if NetworkNames.TOPOLOGY not in d or NetworkNames.MOTIF_IDS not in d:
                ctx.violate(f"{P}.columns", f"edge {sorted(uv)} lacks its topology / motif id annotation{tag}")
                return n_edges
            if d[NetworkNames.TOPOLOGY] != nm:
                ctx.violate(f"{P}.names", f"edge {sorted(uv)} carries name {d[NetworkNames.TOPOLOGY]!r}, its topology "
                                          f"prescribes {nm!r}{tag}")
                return n_edges
            mid = d[NetworkNames.MOTIF_IDS]
            if id_of_inv.setdefault(k, mid) != mid:
                ctx.violate(f"{P}.groups", f"edges of one motif instance (invocation {k}) carry different ids "
                                           f"{id_of_inv[k]} and {mid}{tag}")
                return n_edges
            if inv_of_id.setdefault(mid, k) != k:
                ctx.violate(f"{P}.groups", f"motif id {mid} is shared by invocations {inv_of_id[mid]} and {k}{tag}")
                return n_edges
        ctx.probe("network_pairs_checked", len(inv_of))
    ctx.result(st, n_edges, len(rows))
    return n_edges


def execute(sc, ctx):
    sc0 = sc
    state = {"edges": 0}

    def on_result(rnd, st, val, rec, faulted, jds=None, before=None, types_before=None, scr=None):
        sc = scr or sc0
        if st == "construct_raised":
            ctx.violate("C02.raised", f"constructing the generator raised {describe_exc(val)}")
            return
        if faulted:
            ctx.probe("generation_after_fault")
        if sc.get("raw_builders"):
            state["edges"] += gensim.evaluate_raw(sc, ctx, st, val, "C02", faulted, jds, before, types_before)
            return
        state["edges"] += evaluate(sc, ctx, st, val, rec, faulted)

    gensim.run_generation(sc, ctx, on_result)
    ctx.edges = state["edges"]
    ctx.probe(f"algo_{sc['algo']}_{sc['via']}")


def nontrivial(sc, ctx):
    return getattr(ctx, "edges", 0) >= 1


def shrink(sc):
    from .c01 import shrink as s1
    return s1(sc)
