"""C17 — message passing returns the fixed point of the motif-cover equations.

Cover-labelled networks of motifs glued at single vertices (tree-like and with motif-level loops);
histories of theoretical(phi) queries in arbitrary phi order on ONE MessagePassing object, each also
asked of a fresh object and of a reference fixed-point iteration; the scheduler permutes the edge
insertion order (= the message update schedule of the library's sweep); operand faults abort a query
mid-sweep, after which further queries must still be right.
"""
from fractions import Fraction

import networkx as nx

import gcmpy.message_passing.message_passing as _mp_module
import gcmpy.message_passing.equations.automated_equation as _ae_module
from gcmpy.message_passing.message_passing import MessagePassing

from .. import setseam, interesting

from ..engine import describe_exc
from ..models.percolation import expectation
from ..operands import Exact, OpCounter

setseam.install(_mp_module)
setseam.install(_ae_module)

ID = "C17"
RUNS = {"quick": 256, "thorough": 12000, "thorough_s": 400}
CHUNK = 4
RUN_TIMEOUT = 90.0
RULE = ("seeded cover-labelled networks of 1-6 motifs (K2-K4, C4, C5, diamond, paths) glued at single vertices, tree-like "
        "and with motif-level loops, 2..18 vertices, 12% with two vertices of one motif labelled by different ints of equal hash, 15% with every edge's label written differently (equivalent text), in a quarter of the networks 1-3 (or n+1) vertices that belong to NO motif "
        "(degree zero; empty product = 1), labels in the documented key-[vertices]-[edges]-id form with "
        "scheduler-permuted vertex numbering, member order and edge insertion order (= message update schedule); "
        "iterations in 1..40; histories of 2-6 theoretical(phi) queries in arbitrary phi order (0, 1, grid values, "
        "repeats) on one object, each compared with a fresh object and with a reference fixed point; operand faults "
        "abort a query mid-sweep; in a quarter of the histories the caller hangs a new single-edge motif on the network IN PLACE "
        "between two queries and later queries are judged against the edited network; non-trivial = >= 2 motifs and >= 2 queries; distinct = distinct execution digests")
ASSUMPTIONS = ["reference: own bookkeeping of motif membership, brute-force motif expectation, Jacobi sweeps to |delta| < 1e-13",
               "fixed-point comparison (1e-6) only when BOTH the in-place and the Jacobi reference are within 1e-9 of their limits "
               "after at most (iterations - 2) / 2 sweeps AND the two limits agree: on finite loopy covers the disciplines can "
               "reach different fixed points from the 0.5 start (probe fixed_point_depends_on_sweep_discipline), and then only "
               "the transient clause is judged",
               "transient clause: the value after k sweeps from the 0.5 start must match the message equations swept either in "
               "place in the graph's edge order or Jacobi-style (1e-9); exact for every iteration count, no convergence guard",
               "finite covers with leaf motifs decay to the trivial fixed point S=0, so 45% of the networks are leaf-free rings; "
               "probes reference_limit_nontrivial / transient_value_nontrivial measure how many comparisons are not 0 vs 0",
               "monotonicity / range / phi=0 / history clauses are evaluated for every query and iteration count"]
REAL = ["gcmpy.message_passing.message_passing.MessagePassing", "MessagePassingMixin (label parsing)",
        "AutomatedEquation (shared evaluator with caches inside the driver)", "networkx"]
STUB = ["cover-labelled network constructor", "phi operand (float, or faulting exact wrapper for aborted queries)"]

SHAPES = {
    "K2": (2, [(0, 1)]),
    "K3": (3, [(0, 1), (0, 2), (1, 2)]),
    "K4": (4, [(0, 1), (0, 2), (0, 3), (1, 2), (1, 3), (2, 3)]),
    "C4": (4, [(0, 1), (1, 2), (2, 3), (0, 3)]),
    "C5": (5, [(0, 1), (1, 2), (2, 3), (3, 4), (0, 4)]),
    "D": (4, [(0, 1), (1, 2), (2, 3), (0, 3), (0, 2)]),
    "P3": (3, [(0, 1), (1, 2)]),
    # six-vertex chorded motifs: the smallest size at which vertex sets with equal degree sequences stop being isomorphic
    "H6": (6, [(0, 1), (1, 2), (2, 3), (3, 4), (4, 5), (0, 5)]),
    "H6a": (6, [(0, 1), (1, 2), (2, 3), (3, 4), (4, 5), (0, 5), (2, 4), (2, 5)]),
    "H6b": (6, [(0, 1), (1, 2), (2, 3), (3, 4), (4, 5), (0, 5), (0, 3), (2, 4), (2, 5)]),
    "H6c": (6, [(0, 1), (1, 2), (2, 3), (3, 4), (4, 5), (0, 5), (0, 3)]),
    "HOUSE": (5, [(0, 1), (1, 2), (2, 3), (3, 0), (0, 4), (1, 4)]),
    "T6": (6, [(0, 1), (1, 2), (1, 3), (3, 4), (3, 5)]),
}
BIG_SHAPES = ("H6", "H6a", "H6b", "H6c", "HOUSE", "T6")


def random_shape(prng):
    """Random connected motif on 5-6 vertices with at most 9 edges, registered under a per-scenario name."""
    k = prng.choice((5, 6, 6))
    es = [(prng.randrange(i), i) for i in range(1, k)]
    extra = [(i, j) for i in range(k) for j in range(i + 1, k) if (i, j) not in es and (j, i) not in es]
    prng.shuffle(extra)
    es += extra[: prng.randrange(0, 10 - len(es))]
    return k, es


def gen_ring(prng, big):
    """Closed ring of motifs: consecutive motifs share exactly one vertex, the last closes on the first, so
    every shared vertex lies in two motifs and the message equations have a non-trivial fixed point above
    threshold (finite covers with leaf motifs always decay to the trivial one)."""
    nm = prng.randrange(3, 7 if not big else 10)
    shapes = [prng.choice(("K3", "K3", "K4", "C4", "D", "K2", "P3")) for _ in range(nm)]
    n = 0
    joints = []
    for _ in range(nm):
        joints.append(n)
        n += 1
    motifs = []
    for k, shape in enumerate(shapes):
        size, _ = SHAPES[shape]
        verts = [joints[k], joints[(k + 1) % nm]]
        while len(verts) < size:
            verts.append(n)
            n += 1
        prng.shuffle(verts)
        motifs.append((shape, verts))
    # optional chords: extra motifs between non-adjacent joints (more loops, joints in 3 motifs)
    for _ in range(prng.randrange(0, 3)):
        a, b = prng.sample(range(nm), 2)
        if abs(a - b) in (1, nm - 1) or any({joints[a], joints[b]} <= set(v) for _, v in motifs):
            continue
        motifs.append(("K2", [joints[a], joints[b]]))
    return n, motifs


def gen_network(prng, big):
    if prng.random() < 0.45:
        n, motifs = gen_ring(prng, big)
        return finish_network(prng, n, motifs)
    nm = prng.randrange(1, 7 if not big else 9)
    motifs = []      # list of (shape, [vertex ids])
    n = 0
    member = {}      # vertex -> set of motif indexes
    for k in range(nm):
        shape = prng.choice(("K2", "K2", "K3", "K3", "K4", "C4", "C5", "D", "P3"))
        r = prng.random()
        if r < 0.10:
            shape = prng.choice(BIG_SHAPES)
        elif r < 0.16:
            shape = random_shape(prng)
        size = shape[0] if isinstance(shape, tuple) else SHAPES[shape][0]
        reuse = []
        if motifs:
            want = prng.choice((1, 1, 1, 2)) if k >= 2 else 1
            cands = list(member)
            prng.shuffle(cands)
            for v in cands:
                if len(reuse) >= min(want, size - 1):
                    break
                # v must not share a motif with any already reused vertex
                if all(not (member[v] & member[w]) for w in reuse):
                    reuse.append(v)
        verts = list(reuse)
        while len(verts) < size:
            verts.append(n)
            n += 1
        prng.shuffle(verts)
        motifs.append((shape, verts))
        for v in verts:
            member.setdefault(v, set()).add(k)
    return finish_network(prng, n, motifs)


def finish_network(prng, n, motifs):
    perm = list(range(n))
    prng.shuffle(perm)
    if prng.random() < 0.08:
        off = prng.choice((250, 995, 2 ** 31 - 3, 2 ** 63 + 5))      # non-negative (the label format is split on '-')
        perm = [x + off for x in perm]
    if n >= 2 and motifs and prng.random() < 0.12:
        # two vertices of ONE motif whose labels are different ints with the same hash (v and v + 2^61 - 1)
        sh, verts = prng.choice(motifs)
        if len(verts) >= 2:
            a, b = prng.sample(list(verts), 2)
            if perm[a] + interesting.HASH_MODULUS not in perm:
                perm[b] = perm[a] + interesting.HASH_MODULUS
    out = []
    for uid, (shape, verts) in enumerate(motifs):
        vs = [perm[v] for v in verts]
        template = shape[1] if isinstance(shape, tuple) else SHAPES[shape][1]
        es = [[vs[a], vs[b]] if prng.random() < 0.5 else [vs[b], vs[a]] for a, b in template]
        prng.shuffle(es)
        out.append({"key": str(len(vs)), "verts": vs, "edges": es,
                    "uid": uid * prng.choice((1, 1, 3)) + prng.choice((0, 0, 10, 10, 255, 2 ** 31, 2 ** 63))})
    uids = [m["uid"] for m in out]
    if len(set(uids)) != len(uids):
        for i, m in enumerate(out):
            m["uid"] = i
    order = [(mi, ei) for mi, m in enumerate(out) for ei in range(len(m["edges"]))]
    prng.shuffle(order)
    net = {"n": n, "motifs": out, "order": order}
    if prng.random() < 0.15:
        net["label_text"] = "per_edge"
    if prng.random() < 0.25:
        # vertices that belong to no motif (degree zero: ordinary in configuration-model networks); their product of
        # per-motif failure probabilities is empty = 1
        top = max(perm) if perm else 0
        k = prng.choice((1, 1, 2, 3, n + 1))
        net["isolated"] = sorted({top + 1 + i * prng.choice((1, 2)) for i in range(k)})
        net["isolated_at"] = prng.choice(("first", "last", "middle"))
    return net


def generate(prng, tier, index):
    big = tier == "thorough" and prng.random() < 0.3
    if index % 8 == 1:
        # fixed-point focus: leaf-free cover with BRANCHING (every joint vertex in >= 3 motifs: one motif per edge of a
        # small 3-/4-regular joint graph), phi above threshold, enough sweeps to converge - the only finite covers on
        # which the limit is non-trivial (rings are one-dimensional: threshold phi = 1; leaf motifs decay to S = 0)
        jname = prng.choice(("K4", "K4", "K33", "prism", "K5"))
        J = {"K4": nx.complete_graph(4), "K33": nx.complete_bipartite_graph(3, 3),
             "prism": nx.circular_ladder_graph(3), "K5": nx.complete_graph(5)}[jname]
        shapes = prng.choice((("K2",), ("K2", "K3"), ("K2", "K2", "P3"), ("K2", "K3", "D")))
        n = J.number_of_nodes()
        motifs = []
        for a, b in sorted(J.edges()):
            sh = prng.choice(shapes)
            verts = [a, b]
            while len(verts) < SHAPES[sh][0]:
                verts.append(n)
                n += 1
            prng.shuffle(verts)
            motifs.append((sh, verts))
        net = finish_network(prng, n, motifs)
        qs = [prng.choice((0.7, 0.8, 0.9, 0.95)) for _ in range(2)]
        return {"variant": "clean", "net": net, "iterations": 80 if "K3" not in shapes and "D" not in shapes else 50,
                "queries": qs, "mono_grid": False, "cover_type": "motif cover", "focus": "fixedpoint:" + jname}
    net = gen_network(prng, big)
    variant = "faults" if index % 4 == 3 else "clean"
    grid = [0.0, 1.0, 0.05, 0.1, 0.2, 0.3, 0.4, 0.5, 0.6, 0.7, 0.8, 0.9, 0.95, round(prng.random(), 4),
            5e-324, 2.0 ** -53, 1e-9, 1.0 - 2.0 ** -53, 0, 1]
    nq = prng.randrange(2, 7)
    qs = [prng.choice(grid) for _ in range(nq)]
    if prng.random() < 0.5:
        qs[prng.randrange(nq)] = qs[0]          # a repeated phi
    if prng.random() < 0.4:
        # a value unequal to the previous query but within float-comparison tolerance of it (memoisation by isclose,
        # rounding of keys, ...): consecutive, as in a bisection
        i = prng.randrange(1, nq)
        qs[i] = interesting.near(prng, float(qs[i - 1]) if qs[i - 1] not in (0, 1) else 0.5)
        if qs[i - 1] in (0, 1):
            qs[i - 1] = 0.5
    iters = prng.choice((1, 2, 3, 5, 8, 12, 20, 25, 40) if tier == "thorough" else (1, 2, 3, 5, 8, 12, 20))
    if prng.random() < 0.03:
        iters = 0               # no sweep at all: the value is 1 - average of 0.5^(motifs at the vertex)
    sc = {"variant": variant, "net": net, "iterations": iters, "queries": qs,
          "mono_grid": prng.random() < 0.35 and (tier == "thorough" or iters <= 8),
          "cover_type": prng.choice(("motif cover", "MPCC", "")),
          "set_order": prng.choice(("natural", "natural", "reversed", "rotated", "shuffled"))}
    if prng.random() < 0.15:
        sc["phi_type"] = "np_float64"                     # queries on the shared object pass phi as a numpy scalar
    if nq >= 2 and prng.random() < 0.25:
        # the caller edits the network IN PLACE between two queries on the same object: a new single-edge motif is hung on an
        # existing vertex (edge-disjoint, shares one vertex); later queries are judged against the edited network
        vs = sorted({v for m in net["motifs"] for v in m["verts"]})
        top = max(vs + (net.get("isolated") or [0]))
        sc["net_edit"] = {"query": prng.randrange(1, nq), "at": prng.choice(vs), "new": top + 7,
                          "uid": max(m["uid"] for m in net["motifs"]) + 1}
    if variant == "faults":
        sc["fault"] = {"query": prng.randrange(nq), "at": prng.randrange(0, 400)}
        if prng.random() < 0.5:
            sc["fault"]["line"] = prng.choice((prng.randrange(0, 80), prng.randrange(0, 5000), prng.randrange(0, 100000)))
    return sc


def build_graph(net):
    G = nx.Graph()
    iso, at = net.get("isolated") or [], net.get("isolated_at", "last")
    if at == "first":
        G.add_nodes_from(iso)
    for k, (mi, ei) in enumerate(net["order"]):
        if at == "middle" and k == len(net["order"]) // 2:
            G.add_nodes_from(iso)
        m = net["motifs"][mi]
        a, b = m["edges"][ei]
        vs, es = list(m["verts"]), [tuple(e) for e in m["edges"]]
        if net.get("label_text") == "per_edge":
            # the SAME motif (key, vertex set, edge set, id) written differently on each of its edges: members rotated, edge
            # list rotated and some pairs reversed - equivalent labels, different strings
            r = (ei * 2 + 1) % max(1, len(vs))
            vs = vs[r:] + vs[:r]
            r2 = (ei + 1) % max(1, len(es))
            es = [e if (i + ei) % 2 else e[::-1] for i, e in enumerate(es[r2:] + es[:r2])]
        label = f"{m['key']}-{vs}-{es}-{m['uid']}"
        G.add_edge(a, b, CoverLabel=label)
    G.add_nodes_from(iso)           # no-op when already added
    return G


class Reference:
    """Own message passing: Jacobi sweeps of H[i, tau] = E_tau[focal i; u_j = prod of j's other motifs]."""

    def __init__(self, net):
        self.motifs = net["motifs"]
        self.isolated = len(net.get("isolated") or [])
        self.n = len({v for m in self.motifs for v in m["verts"]}) + self.isolated
        self.of = {}
        for t, m in enumerate(self.motifs):
            for v in m["verts"]:
                self.of.setdefault(v, []).append(t)

    def sweep(self, H, phi):
        new = {}
        for t, m in enumerate(self.motifs):
            edges = [tuple(e) for e in m["edges"]]
            for i in m["verts"]:
                u = {}
                for j in m["verts"]:
                    if j == i:
                        continue
                    p = 1.0
                    for nu in self.of[j]:
                        if nu != t:
                            p *= H[(j, nu)]
                    u[j] = p
                new[(i, t)] = expectation(edges, i, phi, u, one=1.0)
        return new

    def message(self, H, t, i, phi):
        m = self.motifs[t]
        u = {}
        for j in m["verts"]:
            if j == i:
                continue
            p = 1.0
            for nu in self.of[j]:
                if nu != t:
                    p *= H[(j, nu)]
            u[j] = p
        return expectation([tuple(e) for e in m["edges"]], i, phi, u, one=1.0)

    def start(self):
        return {(v, t): 0.5 for t, m in enumerate(self.motifs) for v in m["verts"]}

    def transient(self, phi, sweeps, edge_order, in_place):
        """Value after `sweeps` sweeps from the uniform 0.5 start.  in_place: sweep the edges in the given
        order and recompute both end points' messages immediately (Gauss-Seidel); else Jacobi."""
        H = self.start()
        for _ in range(sweeps):
            if in_place:
                for t, (a, b) in edge_order:
                    H[(a, t)] = self.message(H, t, a, phi)
                    H[(b, t)] = self.message(H, t, b, phi)
            else:
                H = self.sweep(H, phi)
        return self.value(H)

    def value(self, H):
        tot = 0.0
        for v, ts in self.of.items():
            p = 1.0
            for t in ts:
                p *= H[(v, t)]
            tot += p
        tot += self.isolated            # empty product for a vertex in no motif
        return 1.0 - tot / self.n

    def solve(self, phi, edge_order=None, in_place=False, max_sweeps=400):
        """Iterate one sweep discipline from the 0.5 start.  Returns (limit value, sweeps needed to be within
        1e-9 of it, converged).  On finite covers with loops the limit can depend on the discipline (measured:
        in-place and Jacobi sweeps reach different fixed points on the same network), so callers must not assume
        it is unique."""
        H = self.start()
        vals = [self.value(H)]
        delta = 1.0
        for s in range(max_sweeps):
            old = dict(H)
            if in_place:
                for t, (a, b) in edge_order:
                    H[(a, t)] = self.message(H, t, a, phi)
                    H[(b, t)] = self.message(H, t, b, phi)
            else:
                H = self.sweep(H, phi)
            delta = max(abs(H[k] - old[k]) for k in H)
            vals.append(self.value(H))
            if delta < 1e-13:
                break
        limit = vals[-1]
        converged = delta < 1e-13
        need = next((s for s in range(len(vals)) if all(abs(x - limit) <= 1e-9 for x in vals[s:])), len(vals))
        return limit, need, converged


def execute(sc, ctx):
    mode = sc.get("set_order", "natural")
    before_it = setseam.ITERATIONS
    with setseam.ordering(mode, ctx.source("setorder", None)):
        _execute(sc, ctx)
    if mode != "natural" and setseam.ITERATIONS > before_it:
        ctx.fault("set_iteration_order")


def _execute(sc, ctx):
    P = "C17"
    net = sc["net"]
    G = build_graph(net)
    iters = sc["iterations"]
    src = ctx.source("none")
    ref = Reference(net)
    uid_to_t = {m["uid"]: t for t, m in enumerate(net["motifs"])}
    edge_order = [(uid_to_t[int(d["CoverLabel"].split("-")[-1])], (a, b)) for a, b, d in G.edges(data=True)]
    ctype = sc.get("cover_type", "motif cover")

    def fresh():
        return MessagePassing(G, ctype, iters) if ctype else MessagePassing(G, iterations=iters)

    try:
        shared = fresh()
    except Exception as e:
        ctx.violate(f"{P}.raised", f"constructing MessagePassing raised {describe_exc(e)}")
        return
    faulted = False
    fault = sc.get("fault")
    for k, phi in enumerate(sc["queries"]):
        ed = sc.get("net_edit")
        if ed and ed["query"] == k:
            a, b = ed["at"], ed["new"]
            m = {"key": "2", "verts": [a, b], "edges": [[a, b]], "uid": ed["uid"]}
            net = dict(net, motifs=net["motifs"] + [m])
            G.add_edge(a, b, CoverLabel=f"2-{[a, b]}-{[(a, b)]}-{ed['uid']}")
            ref = Reference(net)
            uid_to_t = {mm["uid"]: t for t, mm in enumerate(net["motifs"])}
            edge_order = [(uid_to_t[int(d["CoverLabel"].split("-")[-1])], (x, y)) for x, y, d in G.edges(data=True)]
            ctx.probe("network_edited_in_place_between_queries")
        tag = f" (query #{k}, phi={phi}, iterations={iters}" + (", after an aborted query on this object)" if faulted else ")")
        if fault and fault["query"] == k and fault.get("line") is not None:
            st, _ = ctx.call(src, shared.theoretical, phi, abort_at_line=fault["line"], label="theoretical[interrupted at line]")
            if st == "abort":
                faulted = True
                tag = f" (query #{k}, phi={phi}, iterations={iters}, after a query interrupted at a library line on this object)"
        elif fault and fault["query"] == k:
            st, _ = ctx.call(src, shared.theoretical, Exact(Fraction(phi), OpCounter(fail_at=fault["at"])), label="theoretical[faulting]")
            if st == "fault":
                ctx.fault("operand_raise")
                faulted = True
                tag = f" (query #{k}, phi={phi}, iterations={iters}, after an aborted query on this object)"
        phi_arg = phi
        if sc.get("phi_type") == "np_float64":
            import numpy as np
            phi_arg = np.float64(phi)
        st, val = ctx.call(src, shared.theoretical, phi_arg, label="theoretical")
        if st != "ok":
            ctx.violate(f"{P}.raised", f"theoretical: {st} {describe_exc(val) if st == 'raised' else ''}{tag}")
            return
        try:
            val = float(val)
        except Exception:
            ctx.violate(f"{P}.raised", f"theoretical returned {type(val).__name__}{tag}")
            return
        st2, val2 = ctx.call(src, fresh().theoretical, phi, label="theoretical[fresh]")
        if st2 != "ok":
            ctx.violate(f"{P}.raised", f"theoretical on a fresh object: {st2} {describe_exc(val2) if st2 == 'raised' else ''}{tag}")
            return
        clause = f"{P}.postfault" if faulted else f"{P}.history"
        ctx.expect(clause, abs(val - float(val2)) <= 1e-12,
                   lambda: f"same object returns {val!r}, a fresh object {float(val2)!r}{tag}")
        ctx.expect(f"{P}.range", -1e-12 <= val <= 1.0 + 1e-12, lambda: f"value {val!r} outside [0, 1]{tag}")
        if phi == 0.0 and iters >= 1:
            # with zero sweeps the driver returns the untouched 0.5 start; "0 at phi = 0" is a statement about the
            # computed fixed point, which a single sweep at phi = 0 already reaches exactly
            ctx.expect(f"{P}.zero", abs(val) <= 1e-12, lambda: f"phi=0 gives {val!r}, expected 0{tag}")
        # value after `iters` sweeps from the 0.5 start: exact to rounding for EVERY iteration count.  Either
        # sweep discipline is accepted (in-place in the graph's edge order, or Jacobi) so that a legitimate
        # change of discipline does not alarm; both coincide at the fixed point.
        t_gs = ref.transient(phi, iters, edge_order, True)
        t_ja = ref.transient(phi, iters, edge_order, False)
        ctx.check(f"{P}.transient")
        if max(abs(t_gs), abs(t_ja)) > 1e-6:
            ctx.probe("transient_value_nontrivial")
        if min(abs(val - t_gs), abs(val - t_ja)) > 1e-9:
            ctx.violate(f"{P}.transient", f"value {val!r} after {iters} sweeps from the 0.5 start; the message equations give "
                                          f"{t_gs!r} (edges swept in place) or {t_ja!r} (Jacobi){tag}")
            return
        # converged fixed point.  The limit reached from the 0.5 start can depend on the sweep discipline on finite
        # loopy covers (measured), and a guard can exclude the very discipline the library follows.  The clause is
        # therefore judged ONLY when both disciplines converge well within the sweep count AND agree with each other
        # (a discipline-independent attractor); otherwise `transient` - which pins the value exactly at every sweep
        # count - is the deciding clause for this query.
        sols = [ref.solve(phi, edge_order, in_place) for in_place in (True, False)]
        ok = [conv and iters >= 2 * need + 2 for _, need, conv in sols]
        lims = [l for l, _, _ in sols]
        if all(c for _, _, c in sols) and abs(lims[0] - lims[1]) > 1e-6:
            ctx.probe("fixed_point_depends_on_sweep_discipline")
        if all(ok) and abs(lims[0] - lims[1]) <= 1e-7:
            limit = lims[0]
            nontriv = abs(limit) > 1e-6 and abs(limit - 1.0) > 1e-6
            ctx.probe("fixedpoint_compared")
            if nontriv:
                ctx.probe("reference_limit_nontrivial")
                ctx.probe("fixedpoint_compared_nontrivial")
            ctx.expect(f"{P}.fixedpoint", abs(val - limit) <= 1e-6,
                       lambda: f"value {val!r} but the fixed point of the message equations (same limit for in-place and Jacobi "
                               f"sweeps from the 0.5 start) is {limit!r}{tag}")
        else:
            ctx.probe("fixedpoint_skipped_slow_or_discipline_dependent")
        ctx.result(k, phi, round(val, 10))
    if sc.get("mono_grid"):
        obj = fresh()
        prev = None
        for g in range(0, 11):
            phi = g / 10.0
            st, val = ctx.call(src, obj.theoretical, phi, label="theoretical[grid]")
            if st != "ok":
                ctx.violate(f"{P}.raised", f"theoretical(phi={phi}): {st} {describe_exc(val) if st == 'raised' else ''}")
                return
            val = float(val)
            ctx.check(f"{P}.monotone")
            ctx.expect(f"{P}.range", -1e-12 <= val <= 1.0 + 1e-12, lambda: f"value {val!r} outside [0, 1] at phi={phi}, iterations={iters}")
            if prev is not None and val < prev - 1e-12:
                ctx.violate(f"{P}.monotone", f"value decreases from {prev!r} at phi={(g - 1) / 10.0} to {val!r} at phi={phi} (iterations={iters})")
                return
            prev = val
    ctx.nt = len(net["motifs"]) >= 2 and len(sc["queries"]) >= 2
    if any(len(ts) >= 3 for ts in ref.of.values()):
        ctx.probe("vertex_in_3_or_more_motifs")
    if sum(len(ts) - 1 for ts in ref.of.values()) > len(net["motifs"]) - 1:
        ctx.probe("motif_level_loop")


def nontrivial(sc, ctx):
    return getattr(ctx, "nt", False)


def shrink(sc):
    if sc.get("net_edit"):
        yield {k: v for k, v in sc.items() if k != "net_edit"}
    if sc.get("fault"):
        c = dict(sc)
        c.pop("fault")
        c["variant"] = "clean"
        yield c
    if sc.get("mono_grid"):
        yield dict(sc, mono_grid=False)
    qs = sc["queries"]
    for i in range(len(qs) - 1, -1, -1):
        if len(qs) > 1 and not (sc.get("fault") and sc["fault"]["query"] >= len(qs) - 1):
            yield dict(sc, queries=qs[:i] + qs[i + 1:])
    net = sc["net"]
    ms = net["motifs"]
    if net.get("isolated"):
        yield dict(sc, net={k: v for k, v in net.items() if k not in ("isolated", "isolated_at")})
        if len(net["isolated"]) > 1:
            yield dict(sc, net=dict(net, isolated=net["isolated"][:1]))
    if len(ms) > 1:
        # drop the last motif (the construction guarantees the rest stays a valid cover)
        keep = ms[:-1]
        order = [(mi, ei) for mi, ei in net["order"] if mi < len(keep)]
        yield dict(sc, net=dict(net, motifs=keep, order=order))
    if sc["iterations"] > 1:
        yield dict(sc, iterations=max(1, sc["iterations"] // 2))
    canon = sorted(net["order"])
    if canon != [tuple(x) for x in net["order"]] and canon != net["order"]:
        yield dict(sc, net=dict(net, order=canon))
