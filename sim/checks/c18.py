"""C18 — bond percolation keeps each edge independently with probability phi.

The helper under scheduled floats, including the legal extremes 0.0, 2^-53 and 1-2^-53 that uniform
sampling never produces; exact end-point oracles and a rigorous binomial tail test on stars.
"""
import math
from collections import Counter

import networkx as nx

from gcmpy.tools.bond_percolate import bond_percolate

from .. import simrandom, stats
from ..engine import describe_exc, h64, run_seed
from ..simrandom import Source, _RealRandom

ID = "C18"
RUNS = {"quick": 48000, "thorough": 300000, "thorough_s": 200}
CHUNK = 1000
STAR_RUNS = {"quick": 20000, "thorough": 1000000}
RULE = ("seeded graphs with 1..12 vertices incl. isolated ones (G(n,p), stars, paths, complete graphs, forests; node "
        "and edge attributes; arbitrary labels), phi in {0, 2^-53, 0.1, 0.3, 0.5, 0.9, 1-2^-53, 1}, float schedules "
        "uniform / extreme (0.0, 2^-53, 1-2^-53) / lo / hi / mix; 35% of the runs are histories on ONE graph object whose edges the "
        "caller edits in place between two calls (edges added / removed, a vertex attached, degree-preserving double edge swaps), every clause re-evaluated against "
        "the edited graph; 12% of the graphs carry self-loops (also three exact-law scenarios); 15% of the runs and two exact-law scenarios pass phi as a numpy float64; non-trivial = graph has >= 1 edge; distinct = distinct "
        "execution digests.  Exact law: on a catalogue of small (multi)graphs - stars, multi-spoke stars, disjoint edges, two "
        "stars, fragments larger than the giant, triangle plus path - the distribution of N*S under uniform decisions vs the "
        "exact law from enumerating all edge subsets, rigorous KL bound")
ASSUMPTIONS = ["phi=1 and phi=0 end points are exact for every legal draw in [0,1)",
               "star law tested with i.i.d. uniform decisions; false-alarm probability < 1e-12 per test"]
REAL = ["gcmpy.tools.bond_percolate.bond_percolate", "networkx connected_components"]
STUB = ["entropy source (decision stream)"]

PHIS = (0.0, 5e-324, 1e-300, 2.0 ** -53, 1e-9, 0.1, 0.3, 0.5, 0.9, 1.0 - 1e-9, 1.0 - 2.0 ** -53, 1.0, 0, 1)


def gen_graph(prng):
    n = prng.randrange(1, 13) if prng.random() > 0.04 else prng.choice((17, 33, 64, 65, 100, 130))
    kind = prng.choice(("gnp", "gnp", "star", "path", "complete", "forest", "empty"))
    if n > 12 and kind == "complete":
        kind = "gnp"
    labels = list(range(n)) if prng.random() < 0.5 else prng.sample(range(0, max(60, 4 * n)), n)
    edges = []
    if kind == "gnp":
        p = prng.choice((0.15, 0.3, 0.6))
        edges = [[i, j] for i in range(n) for j in range(i + 1, n) if prng.random() < p]
    elif kind == "star":
        edges = [[0, i] for i in range(1, n)]
    elif kind == "path":
        edges = [[i, i + 1] for i in range(n - 1)]
    elif kind == "complete":
        edges = [[i, j] for i in range(n) for j in range(i + 1, n)]
    elif kind == "forest":
        edges = [[prng.randrange(i), i] for i in range(1, n) if prng.random() < 0.7]
    multi = False
    if edges and prng.random() < 0.15:
        # nx.MultiGraph (a subclass of nx.Graph, e.g. what nx.configuration_model returns): parallel edges are
        # separate edges and must be retained independently
        multi = True
        edges = edges + [prng.choice(edges) for _ in range(prng.randrange(1, len(edges) + 2))]
    if prng.random() < 0.12:
        # self-loops (a configuration-model graph has them): an edge like any other for the draws, never joins anything
        edges = edges + [[v, v] for v in prng.sample(range(n), prng.randrange(1, min(3, n) + 1))]
    prng.shuffle(edges)
    r = prng.random()
    if r < 0.05:
        labels = [x + prng.choice((250, 2 ** 31, 2 ** 63 + 5)) for x in labels]        # beyond the small-int cache / C long
    elif r < 0.10:
        labels = [f"v{x}" for x in labels]                                          # string vertices
    elif r < 0.13:
        labels = [[x, -x] for x in labels]                                          # tuple vertices (JSON: lists)
    return {"nodes": labels, "edges": [[labels[a], labels[b]] for a, b in edges], "kind": kind, "multi": multi}


def generate(prng, tier, index):
    g = gen_graph(prng)
    pol = prng.choice(({}, {"float": "extreme"}, {"float": "lo"}, {"float": "hi"}, {"float": "mix", "p": 0.3},
                       {"float": "mix", "p": 0.7}))
    sc = {"variant": "clean", "graph": g, "phis": [prng.choice(PHIS) for _ in range(prng.randrange(1, 4))],
          "policy": pol, "attrs": prng.random() < 0.5}
    if index % 6 == 5:
        sc["variant"] = "faults"
        sc["abort_line"] = prng.randrange(0, 12)
    if prng.random() < 0.15:
        sc["phi_type"] = "np_float64"                     # the probability as a numpy scalar
    if prng.random() < 0.35 and g["nodes"]:
        # history on ONE graph object: between two calls the caller edits the graph IN PLACE (grows it, removes or
        # rewires an edge) - percolate, rewire, percolate again.  Every clause is re-evaluated against the edited graph.
        if len(sc["phis"]) < 2:
            sc["phis"] = sc["phis"] + [prng.choice((0.0, 0.0, 1.0, prng.choice(PHIS)))]
        nodes = list(g["nodes"])
        cur = [list(e) for e in g["edges"]]
        edits = []
        fresh = 0
        for _ in range(len(sc["phis"]) - 1):
            ed = []
            for _ in range(prng.choice((1, 1, 2, 3))):
                kind = prng.choice(("add", "add", "remove", "add_node_edge", "swap", "swap"))
                if kind == "swap" and len(cur) >= 2:
                    # degree-preserving rewiring in place: (a,b),(c,d) -> (a,c),(b,d); every vertex keeps its degree
                    for _try in range(8):
                        (a, b), (c, d) = prng.sample(cur, 2)
                        if len({repr(a), repr(b), repr(c), repr(d)}) == 4 and not any(
                                {repr(x), repr(y)} in ({repr(a), repr(c)}, {repr(b), repr(d)}) for x, y in cur):
                            cur.remove([a, b]); cur.remove([c, d]); cur.append([a, c]); cur.append([b, d])
                            ed += [["remove", a, b], ["remove", c, d], ["add", a, c], ["add", b, d]]
                            break
                elif kind == "remove" and cur:
                    e = cur.pop(prng.randrange(len(cur)))
                    ed.append(["remove", e[0], e[1]])
                elif kind == "add_node_edge":
                    new = f"new{fresh}"
                    fresh += 1
                    a = prng.choice(nodes)
                    nodes.append(new)
                    cur.append([a, new])
                    ed.append(["add", a, new])
                elif len(nodes) >= 2:
                    a, b = prng.sample(nodes, 2)
                    if g.get("multi") or not any({repr(a), repr(b)} == {repr(x), repr(y)} for x, y in cur):
                        cur.append([a, b])
                        ed.append(["add", a, b])
            edits.append(ed)
        sc["edits"] = edits
    return sc


def build(g, attrs):
    G = nx.MultiGraph() if g.get("multi") else nx.Graph()
    h = (lambda v: tuple(v) if isinstance(v, list) else v)
    G.add_nodes_from(h(v) for v in g["nodes"])
    G.add_edges_from((h(a), h(b)) for a, b in g["edges"])
    if attrs:
        for v in G.nodes():
            G.nodes[v]["joint_degree"] = (G.degree(v), 0)
        if not g.get("multi"):
            for i, e in enumerate(G.edges()):
                G.edges[e]["topology"] = f"t{i % 2}"
    return G


def snapshot(G):
    return (sorted((str(k), repr(v)) for k, v in G.graph.items()),
            sorted((repr(v), sorted(d.items())) for v, d in G.nodes(data=True)),
            sorted((sorted(map(repr, (u, v))), sorted(d.items())) for u, v, d in G.edges(data=True)))


def execute(sc, ctx):
    P = "C18"
    G = build(sc["graph"], sc.get("attrs"))
    N = G.order()
    largest = max(len(c) for c in nx.connected_components(G))
    before = snapshot(G)
    src = ctx.source("perc", sc.get("policy"))
    if sc.get("abort_line") is not None:
        st, _ = ctx.call(src, bond_percolate, G, sc["phis"][0], abort_at_line=sc["abort_line"], budget=4 * G.number_of_edges() + 1000,
                         label="percolate[interrupted at line]")
        ctx.expect(f"{P}.input", snapshot(G) == before, "input graph modified by an interrupted bond_percolate")
    h = (lambda v: tuple(v) if isinstance(v, list) else v)
    for qi, phi in enumerate(sc["phis"]):
        if qi > 0 and sc.get("edits") and qi - 1 < len(sc["edits"]) and sc["edits"][qi - 1]:
            for op, a, b in sc["edits"][qi - 1]:
                a, b = h(a), h(b)
                if op == "add":
                    G.add_edge(a, b)
                elif G.has_edge(a, b):
                    G.remove_edge(a, b)
            N = G.order()
            largest = max(len(c) for c in nx.connected_components(G))
            before = snapshot(G)
            ctx.probe("graph_edited_in_place_between_calls")
        # decision budget scales with the input: one draw per edge is what the helper needs; 4x + slack is generous,
        # and exhausting it means "no result" (a fixed 10000 false-alarmed on graphs with more than 10000 edges)
        phi_arg = phi
        if sc.get("phi_type") == "np_float64":
            import numpy as np
            phi_arg = np.float64(phi)
        st, S = ctx.call(src, bond_percolate, G, phi_arg, budget=4 * G.number_of_edges() + 1000, label=f"percolate[{phi!r}]")
        if st == "ok" and sc.get("phi_type") and not isinstance(S, float):
            S = float(S)
        if st != "ok":
            ctx.violate(f"{P}.raised", f"bond_percolate(phi={phi!r}): {st} {describe_exc(S) if st == 'raised' else ''}")
            return
        ctx.expect(f"{P}.input", snapshot(G) == before, f"input graph modified by bond_percolate(phi={phi!r})")
        ns = S * N
        ctx.expect(f"{P}.lattice", isinstance(S, float) and abs(ns - round(ns)) < 1e-9 and 1 <= round(ns) <= N,
                   lambda: f"S={S!r} is not a multiple of 1/N in [1/N, 1] (N={N}, phi={phi!r})")
        ctx.expect(f"{P}.bound", round(ns) <= largest,
                   lambda: f"S*N={ns} exceeds the largest component of the input ({largest}) at phi={phi!r}")
        if phi == 1.0:
            ctx.expect(f"{P}.phi1", round(ns) == largest and abs(S - largest / N) < 1e-12,
                       lambda: f"phi=1 returned {S!r}, exact largest-component fraction is {largest}/{N}")
        if phi == 0.0:
            if G.number_of_edges() and any(isinstance(x, float) and x == 0.0 for x in src.log[-G.number_of_edges():]):
                ctx.probe("draw_0.0_at_phi_0")
                ctx.fault("extreme_draw")
            ctx.expect(f"{P}.phi0", round(ns) == 1 and abs(S - 1.0 / N) < 1e-12,
                       lambda: f"phi=0 returned {S!r}, expected exactly 1/{N}")
        ctx.result(phi, S)
    ctx.edges = G.number_of_edges()
    if any(G.degree(v) == 0 for v in G.nodes()):
        ctx.probe("isolated_vertex")
    if sc["graph"].get("multi"):
        ctx.probe("multigraph_input")


def nontrivial(sc, ctx):
    return getattr(ctx, "edges", 0) >= 1


def shrink(sc):
    g = sc["graph"]
    if sc.get("edits"):
        ed = sc["edits"]
        yield {k: v for k, v in sc.items() if k != "edits"}
        for i in range(len(sc["phis"])):
            if len(sc["phis"]) > 2:
                j = max(0, i - 1)
                yield dict(sc, phis=sc["phis"][:i] + sc["phis"][i + 1:], edits=ed[:j] + ed[j + 1:])
        for gi, gap in enumerate(ed):
            for k in range(len(gap)):
                if sum(len(x) for x in ed) > 1:
                    yield dict(sc, edits=ed[:gi] + [gap[:k] + gap[k + 1:]] + ed[gi + 1:])
    elif len(sc["phis"]) > 1:
        for i in range(len(sc["phis"])):
            yield dict(sc, phis=sc["phis"][:i] + sc["phis"][i + 1:])
    for i in range(len(g["edges"])):
        yield dict(sc, graph=dict(g, edges=g["edges"][:i] + g["edges"][i + 1:]))
    used = [v for e in g["edges"] for v in e]
    for v in g["nodes"]:
        if v not in used and len(g["nodes"]) > 1:
            yield dict(sc, graph=dict(g, nodes=[x for x in g["nodes"] if x != v]))
    if sc.get("attrs"):
        yield dict(sc, attrs=False)


# ---- exact law on small graphs ----------------------------------------------------------------------------------
# Stars were the first instance; the same oracle works for ANY small (multi)graph: enumerate every edge subset, weight it
# phi^k (1-phi)^(m-k), tabulate the largest component.  Disconnected graphs matter: there the VALUE is not pinned down by
# the end points, the lattice or the bound.
def _star(M, k=1):
    return [[0, i] for i in range(1, M + 1) for _ in range(k)]


def star_scenarios(seed, tier):
    cat = [("star-M4-phi0.3", _star(4), 5, 0.3), ("star-M6-phi0.5", _star(6), 7, 0.5), ("star-M3-phi0.9", _star(3), 4, 0.9),
           ("star-M8-phi0.1", _star(8), 9, 0.1), ("star-M4-doubled-phi0.5", _star(4, 2), 5, 0.5),
           ("star-M5-tripled-phi0.3", _star(5, 3), 6, 0.3),
           ("two-disjoint-edges-phi0.5", [[0, 1], [2, 3]], 4, 0.5),
           ("two-stars-phi0.5", _star(4) + [[5, 6], [5, 7], [5, 8], [5, 9]], 10, 0.5),
           ("six-disjoint-edges-and-two-isolated-phi0.3", [[2 * i, 2 * i + 1] for i in range(6)], 14, 0.3),
           ("triangle-plus-path-phi0.7", [[0, 1], [1, 2], [0, 2], [3, 4], [4, 5], [5, 6]], 7, 0.7),
           ("small-giant-large-fragments-phi0.6", [[0, 1], [0, 2], [0, 3], [0, 4], [5, 6], [6, 7], [7, 8], [9, 10], [10, 11], [11, 9]], 12, 0.6)]
    if tier == "thorough":
        cat += [("star-M10-phi0.7", _star(10), 11, 0.7), ("star-M2-phi0.5", _star(2), 3, 0.5), ("star-M5-phi0.05", _star(5), 6, 0.05),
                ("star-M6-doubled-phi0.2", _star(6, 2), 7, 0.2),
                ("three-triangles-phi0.4", [[3 * i + a, 3 * i + b] for i in range(3) for a, b in ((0, 1), (1, 2), (0, 2))], 9, 0.4)]
        from ..simrandom import _RealRandom
        from ..engine import h64
        prng = _RealRandom(h64("C18-graphs", seed))
        for i in range(4):
            n = prng.randrange(4, 10)
            es = [[a, b] for a in range(n) for b in range(a + 1, n) if prng.random() < 0.25][:11]
            if es:
                cat.append((f"random-{i}", es, n, prng.choice((0.2, 0.5, 0.8))))
    out = [(t, {"edges": es, "n": n, "phi": p}) for t, es, n, p in cat]
    # the same law with the probability given as a numpy scalar (two catalogue entries)
    # graphs with self-loops: the loop takes a draw like any edge and joins nothing
    out.append(("loop-and-edge-phi0.5", {"edges": [[0, 0], [1, 2]], "n": 3, "phi": 0.5}))
    out.append(("only-a-loop-phi0.7", {"edges": [[0, 0]], "n": 2, "phi": 0.7}))
    out.append(("path-with-two-loops-phi0.4", {"edges": [[0, 1], [1, 2], [1, 1], [3, 3]], "n": 4, "phi": 0.4}))
    out.append(("star-M4-phi0.3-numpy-float64", {"edges": _star(4), "n": 5, "phi": 0.3, "phi_type": "np_float64"}))
    out.append(("two-disjoint-edges-phi0.5-numpy-float64", {"edges": [[0, 1], [2, 3]], "n": 4, "phi": 0.5, "phi_type": "np_float64"}))
    return out


def _graph(sc):
    G = nx.MultiGraph() if len({frozenset(e) for e in sc["edges"]}) < len(sc["edges"]) else nx.Graph()
    G.add_nodes_from(range(sc["n"]))
    G.add_edges_from(tuple(e) for e in sc["edges"])
    return G


def exact_law(sc):
    """{largest component size: probability} under independent retention with probability phi."""
    es, n, phi = sc["edges"], sc["n"], sc["phi"]
    m = len(es)
    out = {}
    for mask in range(1 << m):
        parent = list(range(n))

        def find(x):
            while parent[x] != x:
                parent[x] = parent[parent[x]]
                x = parent[x]
            return x
        k = 0
        for i in range(m):
            if mask >> i & 1:
                k += 1
                a, b = find(es[i][0]), find(es[i][1])
                if a != b:
                    parent[a] = b
        sizes = {}
        for v in range(n):
            r = find(v)
            sizes[r] = sizes.get(r, 0) + 1
        big = max(sizes.values())
        out[big] = out.get(big, 0.0) + phi ** k * (1 - phi) ** (m - k)
    return out


def dist_runs(sc, base_seed, tag, start, stop):
    G = _graph(sc)
    n = sc["n"]
    cnt = Counter()
    digs = set()
    dec = 0
    phi_arg = sc["phi"]
    if sc.get("phi_type") == "np_float64":
        import numpy as np
        phi_arg = np.float64(phi_arg)
    for i in range(start, stop):
        src = Source("u:perc", _RealRandom(run_seed(base_seed, "C18:" + tag, i)), None)
        try:
            with simrandom.using(src):
                S = bond_percolate(G, phi_arg)
            cnt[round(S * n)] += 1
        except Exception as e:
            cnt[("raised", describe_exc(e))] += 1
        digs.add(h64(tuple(src.log)))
        dec += len(src.log)
    cnt["__decisions__"] = dec
    return cnt, digs


def judge_star(sc, counts, n):
    for key in counts:
        if isinstance(key, tuple):
            return [("C18.raised", f"bond_percolate raised {key[1]}")]
    exp = exact_law(sc)
    bad = stats.frequency_test(counts, exp, n)
    if bad:
        c, q, p, st, thr = max(bad, key=lambda b: b[3])
        return [("C18.star", f"graph with {sc['n']} vertices and edges {sc['edges'][:8]}{'...' if len(sc['edges']) > 8 else ''}, phi={sc['phi']}: "
                             f"P(N*S={c}) observed {q:.5f}, independent retention gives {p:.5f} over {n} runs (n*KL={st:.1f} >= {thr:.1f})")]
    return []


def main(eng):
    tier = eng.tier
    budget = eng.budget_s or RUNS["thorough_s"]
    if tier == "thorough":
        eng.search_for(0.6 * budget, 32000)
    else:
        eng.search(RUNS["quick"])
    n = STAR_RUNS[tier]
    tests = []
    ss = star_scenarios(eng.seed, tier)
    for tag, sc in ss:
        if tier == "thorough":
            counts, n = eng.distribution_timed(sc, tag, 0.4 * budget / len(ss), 50000, 50000, 4000000)
        else:
            counts = eng.distribution(sc, n, tag)
        viol = judge_star(sc, counts, n)
        tests.append({"scenario_tag": tag, "scenario": sc, "runs": n,
                      "observed": {str(k): v / n for k, v in sorted(counts.items(), key=lambda kv: str(kv[0]))}})
        for clause, detail in viol:
            eng.report_custom(clause, f"[{tag}] {detail}", {"kind": "dist", "scenario": sc, "tag": tag, "n": n}, tag)
    eng.extra["star_tests"] = tests
    eng.extra["alpha_per_test"] = stats.ALPHA
    return eng.finish()


def replay_custom(rec):
    from ..engine import Engine
    eng = Engine(ID, tier=rec.get("tier", "quick"), seed=rec["verif_seed"])
    try:
        counts = eng.distribution(rec["scenario"], rec["n"], rec["tag"])
    finally:
        eng.close()
    viol = judge_star(rec["scenario"], counts, rec["n"])
    for clause, detail in viol:
        print(f"REPLAYED clause={clause} detail=[{rec['tag']}] {detail}")
    if viol:
        print(f"VIOLATION property={ID} replay=<this file>")
        return 1
    print("REPLAY: no violation")
    return 0


def dist_scenarios(seed, tier):
    return star_scenarios(seed, tier)
