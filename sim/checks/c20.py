"""C20 — the drawable edge set behaves as a set under any add/remove history.

Seeded histories of add / remove / draw / contains / len / iterate (+ the invalid operation
remove-absent as an injected fault) against a plain `set` model, compared after every operation.
"""
import math

from gcmpy.tools.draw_set import DrawSet

from ..engine import describe_exc
from ..simrandom import _RealRandom as _R

ID = "C20"
RUNS = {"quick": 48000, "thorough": 400000, "thorough_s": 240}
CHUNK = 1000
RULE = ("seeded histories of 1..60 operations (add present/absent, remove by value, remove by position "
        "first/last/middle of the current iteration order, drain to empty, re-insert, draw, contains, len, "
        "iterate, remove-absent as injected invalid operation, coverage bursts, exact coverage by enumerating the draw's decision) over universes of 1..8 "
        "elements (edge tuples rebuilt as fresh equal objects, ints, strings, mixed); draw decisions under "
        "uniform/min/max/sticky/mix policies; the harness's own observation schedule is part of the scenario (model comparison incl. "
        "iteration after every operation / iteration only where the history iterates / no probe at all except where the history observes "
        "and at the end); 30% of the histories interleave operations on a SECOND live set (sometimes a third constructed mid-history), each "
        "compared with its own model; a run is non-trivial when it mutated the set at least twice; "
        "distinct = distinct execution digests (operations, results and RNG decisions); one history per invocation grows past "
        "2^16 or 2^17 members and shrinks back through the power of two")
ASSUMPTIONS = ["reference model is Python's built-in set", "elements are hashable with value equality",
               "coverage clause assumes draw() consumes the module-level RNG (any algorithm)"]
REAL = ["gcmpy.tools.draw_set.DrawSet (from the working tree)", "CPython random.choice above the primitives"]
STUB = ["entropy source (decision stream)"]

KINDS = ("edge", "int", "str", "mixed", "mixed", "exotic")
# exotic elements: JSON tokens resolved per run to ONE object each (NaN has irreflexive equality: only identity makes it a
# member; 1 / 1.0 / True and 0 / -0.0 / False are equal with equal hashes and must behave as one element)
EXOTIC = ["__nan__", "__nan2__", "__nan_tuple__", 1, 1.0, True, 0, -0.0, False, "", [], "__none__", [1, 1.0], 2 ** 61 - 1, -1, -2,
          "__decimal_nan__", 5, 5 + 2 ** 61 - 1, [5, 7], [5 + 2 ** 61 - 1, 7]]      # different elements with equal hashes


def _universe(prng, kind, n):
    out = []
    if kind == "exotic":
        pool = list(EXOTIC)
        prng.shuffle(pool)
        return pool[: max(2, min(n, len(pool)))]
    while len(out) < n:
        k = kind if kind != "mixed" else prng.choice(("edge", "int", "str"))
        if k == "edge":
            e = [prng.randrange(6 if n <= 8 else 40), prng.randrange(6 if n <= 8 else 40)]
        elif k == "int":
            e = prng.randrange(-3, 12 if n <= 8 else 4 * n)
        else:
            e = prng.choice("abcdefgh") + prng.choice(["", "x", "-1"])
        if e not in out:
            out.append(e)
    return out


def generate(prng, tier, index):
    if index == 0 or (tier == "thorough" and index % 50000 == 0):
        # scale: one history that grows past 2^16 / 2^17 members and shrinks back through the power of two by removing
        # non-last members (thresholds in size are dead code on every small universe); model compared at checkpoints
        top = prng.choice((65536, 65536, 131072))
        return {"variant": "clean", "kind": "scale", "grow_to": top + prng.randrange(1, 40), "shrink_to": top - prng.randrange(1, 40),
                "remove": prng.choice(("first", "middle", "random")), "policy": {"int": "uniform"}, "universe": [], "ops": []}
    n = prng.randrange(1, 9)
    kind = prng.choice(KINDS)
    length = prng.randrange(1, 61 if tier == "quick" else 121)
    if prng.random() < 0.03:        # a size crossing some threshold (16, 32, 64, 128 ...) needs a large universe
        n = prng.choice((17, 33, 65, 70, 129, 200, 257, 342, 513, 1025))
        kind = prng.choice(("int", "edge"))
        length = prng.randrange(n, 3 * n) if n <= 200 else prng.randrange(n, n + 400)
    uni = _universe(prng, kind, n)
    variant = "faults" if index % 3 == 0 else "clean"
    # swarm: per-run operation mix
    w = {"add": prng.choice((1, 3, 6)), "remove": prng.choice((1, 3, 6)), "remove_pos": prng.choice((0, 2, 4)),
         "draw": prng.choice((0, 2, 5)), "contains": prng.choice((0, 1)), "iter": prng.choice((0, 1)),
         "drain": prng.choice((0, 0, 1)), "cover": prng.choice((0, 0, 1)), "cover_exact": prng.choice((0, 1, 1)),
         "remove_absent": (prng.choice((1, 2)) if variant == "faults" else 0)}
    if n > 130:
        w["cover"] = 0          # a coverage burst costs n (ln n + 30) instrumented draws; small universes exercise that clause
        w["drain"] = 0
    names = [k for k in w if w[k] > 0]
    weights = [w[k] for k in names]
    ops = []
    for _ in range(length):
        op = prng.choices(names, weights)[0]
        if op in ("add", "remove", "contains", "remove_absent"):
            ops.append([op, prng.randrange(n)])
        elif op == "remove_pos":
            ops.append([op, prng.choice(("first", "last", "mid"))])
        elif op == "drain":
            ops.append([op, prng.choice(("fwd", "rev"))])
        else:
            ops.append([op, 0])
    pol = prng.choice(({"int": "uniform"}, {"int": "min"}, {"int": "max"}, {"int": "sticky"},
                       {"int": "mix", "p": 0.5}))
    return {"variant": variant, "universe": uni, "ops": ops, "policy": pol, "max_faults": prng.choice((1, 2, 3)),
            # when the harness itself iterates the set: after every operation, or only at the history's own iterate operations
            "observe": prng.choice(("every", "every", "sparse", "blind")),
            # operations on a second live set, interleaved one per operation of the history (cyclically)
            "other": ([[prng.choice(("add", "add", "remove", "none", "new" if prng.random() < 0.3 else "add")), prng.randrange(64)]
                       for _ in range(prng.randrange(1, 8))] if prng.random() < 0.3 else None)}


_NAN, _NAN2 = float("nan"), float("nan")
_SPECIAL = {"__nan__": _NAN, "__nan2__": _NAN2, "__nan_tuple__": (0, _NAN), "__none__": None}
try:
    from decimal import Decimal
    _SPECIAL["__decimal_nan__"] = Decimal("NaN")
except Exception:       # pragma: no cover
    _SPECIAL["__decimal_nan__"] = "decimal-unavailable"


def _el(x):
    if isinstance(x, list):
        return tuple(x)
    if isinstance(x, str) and x in _SPECIAL:
        return _SPECIAL[x]          # the SAME object every time within a process: identity is what makes NaN a member
    return x


def _compare(ctx, ds, model, uni, after, iterate=True):
    """iterate=False: the harness does NOT iterate the set at this point (len and membership only).  Observation is an
    operation too: iterating after every step can refresh whatever an implementation derives lazily for iteration and so
    hide its staleness from exactly this comparison; 'sparse' histories iterate only where the history says so."""
    ctx.check("C20.len")
    try:
        n = len(ds)
        items = list(ds) if iterate else None
    except Exception as e:
        ctx.violate("C20.raised", f"len/iter raised {describe_exc(e)} after {after}")
        return False
    ok = True
    if n != len(model):
        ctx.violate("C20.len", f"len={n} model={len(model)} after {after}")
        ok = False
    if iterate:
        ctx.check("C20.iter")
    if iterate and (len(items) != len(set(items)) or set(items) != model):
        ctx.violate("C20.iter", f"iteration {sorted(map(repr, items))} model {sorted(map(repr, model))} after {after}")
        ok = False
    ctx.check("C20.contains")
    for u in uni:
        e = _el(u)
        try:
            got = e in ds
        except Exception as ex:
            ctx.violate("C20.raised", f"contains raised {describe_exc(ex)} after {after}")
            return False
        if got != (e in model):
            ctx.violate("C20.contains", f"{e!r} in set -> {got}, model {e in model} after {after}")
            ok = False
            break
    return ok


def execute_scale(sc, ctx):
    src = ctx.source("draw", sc.get("policy"))
    ds = DrawSet()
    model = set()
    prng = _R(ctx.seed)
    for x in range(sc["grow_to"]):
        ds.add(x)
        model.add(x)
    order = list(ds)

    def checkpoint(where):
        ctx.check("C20.len"); ctx.check("C20.iter"); ctx.check("C20.contains")
        if len(ds) != len(model):
            ctx.violate("C20.len", f"len={len(ds)} model={len(model)} {where}")
            return False
        items = list(ds)
        if len(items) != len(set(items)) or set(items) != model:
            ctx.violate("C20.iter", f"iteration differs from the model ({len(set(items) ^ model)} elements) {where}")
            return False
        return True

    if not checkpoint(f"after adding {sc['grow_to']} members"):
        return
    removed = []
    while len(model) > sc["shrink_to"]:
        cur_len = len(model)
        if sc["remove"] == "first":
            e = next(iter(ds))
        elif sc["remove"] == "middle":
            e = order[len(order) // 2 - len(removed)] if order[len(order) // 2 - len(removed)] in model else next(iter(model))
        else:
            e = order[prng.randrange(len(order))]
            if e not in model:
                continue
        st, v = ctx.call(src, ds.remove, e, label="remove")
        if st != "ok":
            ctx.violate("C20.raised", f"remove: {st}: {describe_exc(v)} at size {cur_len}")
            return
        model.discard(e)
        removed.append(e)
        for r in removed[-3:]:
            if r in ds:
                ctx.violate("C20.contains", f"{r!r} in set -> True after it was removed (size went {cur_len} -> {len(model)})")
                return
        if len(ds) != len(model):
            ctx.violate("C20.len", f"len={len(ds)} model={len(model)} after removing {e!r} at size {cur_len}")
            return
    if not checkpoint(f"after shrinking to {sc['shrink_to']} members"):
        return
    for r in removed[:5]:
        ds.add(r)
        model.add(r)
    checkpoint("after re-inserting removed members")
    ctx.probe("scale_history_members", sc["grow_to"])
    ctx.mutations = sc["grow_to"]
    ctx.result("scale", len(model))


def execute(sc, ctx):
    if sc.get("kind") == "scale":
        return execute_scale(sc, ctx)
    uni = sc["universe"]
    src = ctx.source("draw", sc.get("policy"))
    usrc = None
    ds = DrawSet()
    model = set()
    # a SECOND live set (and, now and then, a third one constructed in the middle of the history): whatever happens to it
    # must not show in the first.  Its own content is compared with its own model at the end.
    other = DrawSet() if sc.get("other") else None
    omodel = set()
    emptied = False
    mutations = 0
    invalid = 0
    for k, (op, arg) in enumerate(sc["ops"]):
        after = f"op#{k} {op}({arg})"
        if other is not None:
            oo = sc["other"][k % len(sc["other"])]
            try:
                if oo[0] == "add":
                    e2 = _el(uni[oo[1] % len(uni)])
                    other.add(e2); omodel.add(e2)
                elif oo[0] == "remove" and omodel:
                    e2 = sorted(omodel, key=repr)[oo[1] % len(omodel)]
                    other.remove(e2); omodel.discard(e2)
                elif oo[0] == "new":
                    other = DrawSet(); omodel = set()
            except Exception as ex:
                ctx.violate("C20.raised", f"operation {oo} on a second, independent set raised {describe_exc(ex)} before {after}")
                return
        if op == "add":
            e = _el(uni[arg % len(uni)])
            present = e in model
            st, v = ctx.call(src, ds.add, e, label="add")
            if st != "ok":
                ctx.violate("C20.raised", f"add: {st}: {describe_exc(v)} at {after}")
                return
            if present:
                ctx.probe("add_present")
                ctx.check("C20.add")
            else:
                mutations += 1
                if emptied and not model:
                    ctx.probe("reinsert_after_empty")
            model.add(e)
        elif op in ("remove", "remove_absent", "remove_pos"):
            if op == "remove_pos":
                cur = list(ds)
                if not cur:
                    continue
                e = {"first": cur[0], "last": cur[-1], "mid": cur[len(cur) // 2]}[arg]
                if arg == "last":
                    ctx.probe("remove_last_slot")
                if len(cur) == 1:
                    ctx.probe("remove_only_element")
                after = f"op#{k} remove_pos({arg})={e!r}"
            else:
                e = _el(uni[arg % len(uni)])
            if e in model:
                st, v = ctx.call(src, ds.remove, e, label="remove")
                if st != "ok":
                    ctx.violate("C20.raised", f"remove of a present element raised {describe_exc(v)} at {after}")
                    return
                model.discard(e)
                mutations += 1
                if not model:
                    emptied = True
                    ctx.probe("emptied")
            else:
                # invalid operation: must raise and leave the structure intact.  Injected only in the
                # fault variant and at most `max_faults` times per run so that runs make progress.
                if sc["variant"] != "faults" or invalid >= sc.get("max_faults", 2):
                    continue
                invalid += 1
                ctx.fault("invalid_op")
                ctx.check("C20.absent")
                st, v = ctx.call(src, ds.remove, e, label="remove_absent")
                if st == "ok":
                    ctx.violate("C20.absent", f"removing absent {e!r} did not raise at {after}")
        elif op == "drain":
            cur = list(ds)
            if arg == "rev":
                cur.reverse()
            for e in cur:
                st, v = ctx.call(src, ds.remove, e, label="remove")
                if st != "ok":
                    ctx.violate("C20.raised", f"remove raised {describe_exc(v)} while draining at {after}")
                    return
                model.discard(e)
                mutations += 1
                if not _compare(ctx, ds, model, uni, after + f" removing {e!r}"):
                    return
            emptied = True
            ctx.probe("emptied")
        elif op == "draw":
            if not model:
                continue
            ctx.check("C20.draw")
            st, v = ctx.call(src, ds.draw, label="draw")
            if st != "ok":
                ctx.violate("C20.raised", f"draw: {st}: {describe_exc(v)} at {after}")
                return
            if v not in model:
                ctx.violate("C20.draw", f"draw returned {v!r}, not a current member, at {after}")
            ctx.result("draw", repr(v))
        elif op == "cover":
            n = len(model)
            if n == 0:
                continue
            if usrc is None:
                usrc = ctx.source("u:cover")
            need = math.ceil(n * (math.log(n) + 30))
            seen = set()
            ctx.check("C20.coverage")
            for _ in range(need):
                st, v = ctx.call(usrc, ds.draw, label="draw")
                if st != "ok":
                    ctx.violate("C20.raised", f"draw: {st}: {describe_exc(v)} at {after}")
                    return
                if v not in model:
                    ctx.violate("C20.draw", f"draw returned {v!r}, not a current member, at {after}")
                    break
                seen.add(v)
            if seen != model:
                ctx.violate("C20.coverage", f"{len(model) - len(seen)} of {n} members never drawn in "
                                             f"{need} uniform draws at {after}")
        elif op == "cover_exact":
            # the simulator CHOOSES the decision, so "every member can be drawn" can be decided exactly: if a draw is
            # one integer request of size len(set), answering it with 0 .. n-1 in turn must return every member
            n = len(model)
            if n == 0:
                continue
            from ..simrandom import Source
            seen = set()
            enumerable = True
            # first call reveals the shape of the draw's randomness: exactly one integer request of some size m (any
            # m, not necessarily n) is enumerable - answering it with all m values gives the complete image of draw()
            probe = Source("u:enum", None, None, script=[0], tail="zero")
            probe.requests = []
            st, v = ctx.call(probe, ds.draw, label="draw[enumerated]")
            if st != "ok":
                ctx.violate("C20.raised", f"draw: {st}: {describe_exc(v)} at {after}")
                return
            if len(probe.requests) != 1 or probe.requests[0][0] != "i" or probe.requests[0][1] > 4 * n + 16:
                enumerable = False
            else:
                m = probe.requests[0][1]
                for i in range(m):
                    one = Source("u:enum", None, None, script=[i], tail="zero")
                    one.requests = []
                    st, v = ctx.call(one, ds.draw, label="draw[enumerated]")
                    if st != "ok":
                        ctx.violate("C20.raised", f"draw: {st}: {describe_exc(v)} at {after}")
                        return
                    if one.requests != [("i", m)]:
                        enumerable = False
                        break
                    if v not in model:
                        ctx.violate("C20.draw", f"draw returned {v!r}, not a current member, at {after}")
                        return
                    seen.add(v)
            if enumerable:
                ctx.check("C20.coverage")
                ctx.probe("coverage_decided_by_enumeration")
                if seen != model:
                    ctx.violate("C20.coverage", f"{len(model) - len(seen)} of {n} members can never be drawn: answering the draw's "
                                                f"single random request with every possible value returns only {len(seen)} distinct members at {after}")
            else:
                ctx.probe("coverage_not_enumerable")
        elif op == "contains":
            pass  # membership over the whole universe is compared below after every operation
        elif op == "iter":
            pass
        mode = sc.get("observe", "every")
        observing = op in ("iter", "contains") or k == len(sc["ops"]) - 1
        if mode == "blind" and not observing:
            ctx.result(op, len(model))          # no probe of the set at all here: not even len() or membership
            continue
        if not _compare(ctx, ds, model, uni, after, iterate=(mode == "every") or op == "iter" or k == len(sc["ops"]) - 1):
            return
        ctx.result(op, len(model))
    if sc.get("observe", "every") != "every":
        ctx.probe(f"{sc['observe']}_observation_history")
    if other is not None:
        ctx.probe("second_live_set")
        if not _compare(ctx, other, omodel, uni, "the end of the history (second, independent set)"):
            return
    ctx.mutations = mutations


def nontrivial(sc, ctx):
    return getattr(ctx, "mutations", 0) >= 2


def shrink(sc):
    if sc.get("kind") == "scale":
        return
    ops = sc["ops"]
    n = len(ops)
    if n > 1:
        for a, b in ((0, n // 2), (n // 2, n)):
            yield dict(sc, ops=ops[:a] + ops[b:])
    for i in range(n - 1, -1, -1):
        yield dict(sc, ops=ops[:i] + ops[i + 1:])
    for i, (op, arg) in enumerate(ops):
        if op == "drain":
            yield dict(sc, ops=ops[:i] + [["remove_pos", "first"]] + ops[i + 1:])
        if op == "cover":
            yield dict(sc, ops=ops[:i] + [["cover_exact", 0]] + ops[i + 1:])
    if len(sc["universe"]) > 1:
        yield dict(sc, universe=sc["universe"][:-1])
    if sc.get("policy", {}).get("int") != "uniform":
        yield dict(sc, policy={"int": "uniform"})
