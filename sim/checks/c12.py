"""C12 — MCMC rewiring only creates pairings the target allows and approaches it.

Same rewiring simulation as C11.  (a) admissibility: targets from which a scheduler-chosen subset of
pairings no existing edge uses is removed (absent) or zeroed; along each prefix history every created
edge must join an allowed pairing.  (b) bounded-step progress: on 150-300-vertex clean networks from the
real sampler + generator pipeline, strongly (dis)assortative full-support targets far from the current
mixing, |E|/4 accepted swaps: L1 distance to the target must shrink.
"""
from gcmpy.tools.markov_chain_monte_carlo_rewiring import MarkovChainMonteCarloRewiring
from gcmpy.tools.joint_excess_joint_degree_matrices import JointExcessJointDegreeMatrices
from gcmpy.names.tools_names import ToolsNames

from .. import netsim, rewsim
from ..netsim import JD, TOP, MID
from ..engine import describe_exc

ID = "C12"
RUNS = {"quick": 4800, "thorough": 60000, "thorough_s": 400}
CHUNK = 50
RUN_TIMEOUT = 300.0
APPROACH_EVERY = 12
RULE = ("(a) the C11 rewiring scenarios with the removal axis stressed (pairings unused by existing edges made absent / "
        "zero / mixed in the target), prefix histories, every created edge checked against the target; (b) every "
        f"{APPROACH_EVERY}th run: network of 150-300 vertices from the real sampler + network generator under the scheduler "
        "(unclean outcomes rejected), strongly assortative or disassortative full-support target at L1 distance >= 0.5, "
        "|E|/4 accepted swaps under uniform decisions, distance after < before; non-trivial = at least one accepted swap; "
        "distinct = distinct execution digests")
ASSUMPTIONS = ["approach clause is a bounded-progress observation configured far from the margin (not a theorem)",
               "existing edges keep positive target weight by construction",
               "decision budget exhaustion is inconclusive"]
REAL = ["MarkovChainMonteCarloRewiring, DrawSet, JointExcessJointDegreeMatrices, KeysView",
        "JointDegreeManual.sample_jds_from_jdd + GCMAlgorithmNetwork + EdgeListToNetwork (approach phase)"]
STUB = ["entropy source (decision stream)", "direct clean-network constructor (admissibility phase)", "target matrices (generated)"]

JDDS = [
    {"topos": [{"kind": "clique", "size": 2, "name": "2-clique"}, {"kind": "clique", "size": 3, "name": "3-clique"}],
     "jdd": [[[1, 1], 1], [[3, 0], 1], [[2, 1], 1], [[1, 0], 1]]},
    {"topos": [{"kind": "clique", "size": 2, "name": "2-clique"}],
     "jdd": [[[1], 2], [[2], 2], [[4], 1]]},
    {"topos": [{"kind": "clique", "size": 2, "name": "tree"}, {"kind": "clique", "size": 3, "name": "tri"}],
     "jdd": [[[1, 0], 2], [[2, 1], 2], [[3, 1], 1], [[0, 1], 1]]},
    {"topos": [{"kind": "clique", "size": 3, "name": "3-clique"}],
     "jdd": [[[1], 2], [[2], 2], [[3], 1]]},
    {"topos": [{"kind": "clique", "size": 2, "name": "2-clique"}, {"kind": "cycle", "size": 4, "name": "4-cycle"}],
     "jdd": [[[1, 0], 1], [[2, 1], 1], [[3, 0], 1], [[0, 1], 1]]},
]


def generate(prng, tier, index):
    if index % APPROACH_EVERY == 0:
        cfg = prng.choice(JDDS)
        return {"variant": "clean", "kind": "approach", "topos": cfg["topos"], "jdd": cfg["jdd"],
                "N": prng.randrange(150, 301), "mode": "assortative",
                "strength": prng.choice((0.01, 0.02, 0.05)), "search_limit": prng.choice((None, 10, 20))}
    sc = rewsim.gen_scenario(prng, tier, index, "C12")
    sc["kind"] = "allowed"
    return sc


def execute(sc, ctx):
    if sc.get("kind") == "approach":
        return execute_approach(sc, ctx)
    P = "C12"
    tgt = {name: {tuple(k): w for k, w in rows} for name, rows in sc["target"].items()}
    names = netsim.names(sc["spec"])
    state = {"swaps": 0, "created": 0}

    def on_state(L, prev, G, last_float, info):
        state["swaps"] = L + 1
        state["final"] = G
        made, gone = rewsim.created_edges(prev, G)
        for e in made:
            d = G.edges[e]
            t = d.get(TOP)
            ctx.check(f"{P}.allowed")
            state["created"] += 1
            if t not in tgt or e[0] == e[1]:
                ctx.violate(f"{P}.allowed", f"created edge {e} has topology {t!r} / is a loop after {L + 1} swap(s)")
                return False
            i = names.index(t)
            a = list(G.nodes[e[0]][JD]); a[i] -= 1
            b = list(G.nodes[e[1]][JD]); b[i] -= 1
            w1 = tgt[t].get(tuple(a) + tuple(b), 0.0)
            w2 = tgt[t].get(tuple(b) + tuple(a), 0.0)
            if not (w1 > 0.0 and w2 > 0.0):
                ctx.violate(f"{P}.allowed", f"swap {L + 1} created {t!r} edge {e} joining excess degrees {tuple(a)} and {tuple(b)}, "
                                            f"a pairing with target weight {w1!r} ({'absent' if tuple(a) + tuple(b) not in tgt[t] else 'zero'})")
                return False
        return True

    rewsim.run_history(sc, ctx, P, on_state)
    ctx.swaps = state["swaps"]
    if sc.get("pairings_removed"):
        ctx.probe("target_with_removed_pairings")
    ctx.probe("created_edges_checked", state["created"])
    fin = state.get("final")
    ctx.result(state["swaps"], state["created"],
               sorted(tuple(sorted((u, v))) for u, v in fin.edges()) if fin is not None else None)


def make_target(G, topos, mode, strength):
    """Full-support target with the network's own excess distributions q as marginals:
    (1 - s) * diag(q) + s * q q^T  (maximally assortative up to s), so it is reachable by rewiring."""
    names = [t["name"] for t in topos]
    cur = netsim.ref_ejks(G, names)
    ejks = {}
    for name in names:
        m = cur[name]
        h = len(next(iter(m))) // 2 if m else 0
        q = {}
        for k, w in m.items():
            q[k[:h]] = q.get(k[:h], 0.0) + w
        t = {}
        for a in q:
            for b in q:
                t[a + b] = strength * q[a] * q[b] + ((1.0 - strength) * q[a] if a == b else 0.0)
        ejks[name] = t
    return ejks


def execute_approach(sc, ctx):
    P = "C12"
    topos = sc["topos"]
    names = [t["name"] for t in topos]
    src = ctx.source("u:pipeline")
    jdd = {tuple(k): w for k, w in sc["jdd"]}
    net = None
    for attempt in range(12):
        st, cand = netsim.pipeline_network(ctx, src, topos, jdd, sc["N"])
        if st != "ok":
            ctx.violate(f"{P}.raised", f"pipeline (sample + generate) failed: {st} {describe_exc(cand) if st == 'raised' else ''}")
            return
        if netsim.is_clean(cand.G, topos):
            net = cand
            break
        ctx.probe("unclean_pipeline_outcome_rejected")
    if net is None:
        ctx.inconclusive += 1
        return
    G0 = net.G
    E = G0.number_of_edges()
    target = make_target(G0, topos, sc["mode"], sc["strength"])
    before = netsim.ref_ejks(G0, names)
    d0 = sum(netsim.l1_distance(before[n], target[n]) for n in names)
    if d0 < 0.5:
        ctx.probe("approach_skipped_initial_distance_small")
        ctx.inconclusive += 1
        return
    ejks = JointExcessJointDegreeMatrices({ToolsNames.EJKS: target, ToolsNames.EDGE_NAMES: names})
    limit = max(5, E // 4)
    p = {ToolsNames.NETWORK: net, ToolsNames.EJKS: ejks, ToolsNames.CONVERGENCE_LIMIT: limit}
    if sc.get("search_limit") is not None:
        p[ToolsNames.SEARCH_LIMIT] = sc["search_limit"]
    rsrc = ctx.source("u:rewire")
    try:
        mc = MarkovChainMonteCarloRewiring(p)
    except Exception as e:
        ctx.violate(f"{P}.raised", f"constructing the rewiring raised {describe_exc(e)}")
        return
    st, G = ctx.call(rsrc, mc.rewire, budget=400 * limit + 20000, label="rewire[approach]")
    if st == "budget":
        ctx.inconclusive += 1
        ctx.probe("approach_budget_exhausted")
        return
    if st != "ok":
        ctx.violate(f"{P}.raised", f"rewire() on a pipeline network: {st} {describe_exc(G) if st == 'raised' else ''}")
        return
    after = netsim.ref_ejks(G, names)
    d1 = sum(netsim.l1_distance(after[n], target[n]) for n in names)
    ctx.probe("approach_runs")
    ratio = d1 / d0
    ctx.ratio = ratio
    ctx.expect(f"{P}.approach", d1 < d0,
               lambda: f"L1 distance to the {sc['mode']} target went from {d0:.4f} to {d1:.4f} after {limit + 1} accepted swaps "
                       f"on a {G0.number_of_nodes()}-vertex network ({E} edges)")
    # admissibility on the big run as well: full support, so only topology/loop sanity
    ctx.swaps = limit + 1
    ctx.result(round(d0, 9), round(d1, 9))
    ctx.probe("approach_ratio_x1000_sum", int(ratio * 1000))
    ctx.probe("approach_ratio_x1000_max_bucket_%d" % min(10, int(ratio * 10)))


def nontrivial(sc, ctx):
    return getattr(ctx, "swaps", 0) >= 1


def shrink(sc):
    if sc.get("kind") == "approach":
        if sc["N"] > 150:
            yield dict(sc, N=150)
        return
    from .c11 import shrink as s11
    for c in s11(sc):
        if c.get("target_mode") == "uniform" and sc.get("target_mode") != "uniform":
            continue    # keep the removed pairings: they are what the clause is about
        if c["spec"] is not sc["spec"]:
            continue
        yield c
