"""C12 — MCMC rewiring only creates pairings the target allows and approaches it.

Same rewiring simulation as C11.  (a) admissibility: targets from which a scheduler-chosen subset of
pairings no existing edge uses is removed (absent) or zeroed; along each prefix history every created
edge must join an allowed pairing.  (b) bounded-step progress: on 150-300-vertex clean networks from the
real sampler + generator pipeline, strongly (dis)assortative full-support targets far from the current
mixing, |E|/4 accepted swaps: L1 distance to the target must shrink.
"""
from gcmpy.tools.markov_chain_monte_carlo_rewiring import MarkovChainMonteCarloRewiring
from gcmpy.tools.joint_excess_joint_degree_matrices import JointExcessJointDegreeMatrices
from gcmpy.names.tools_names import ToolsNames

from .. import netsim, rewsim
from ..netsim import JD, TOP, MID
from ..engine import describe_exc

ID = "C12"
RUNS = {"quick": 4800, "thorough": 60000, "thorough_s": 400}
CHUNK = 50
RUN_TIMEOUT = 300.0
APPROACH_EVERY = 12
ORIENTED_EVERY, ORIENTED_AT = 120, 60
FINDING = "C12.approach.label-orientation"
DIGEST_EXTRA = (60, 180, 300, 420, 540, 660)        # label-layout / prepared-start / clique-network runs, for the determinism self-test
RULE = ("(a) the C11 rewiring scenarios with the removal axis stressed (pairings unused by existing edges made absent / "
        "zero / mixed in the target), prefix histories, every created edge checked against the target; (b) every "
        f"{APPROACH_EVERY}th run: network of 150-300 vertices from the real sampler + network generator under the scheduler "
        "(unclean outcomes rejected), strongly assortative or disassortative full-support target at L1 distance >= 0.5, "
        "|E|/4 accepted swaps under uniform decisions, distance after < before; (c) every 120th run: directly built 2-clique "
        "network of 1200-3500 edges with 2-4 degree classes, vertex labels in ascending / descending order of degree or "
        "shuffled, mildly assortative / disassortative full-support target with the network's own marginals at >= 4x the "
        "sampling noise, |E| accepted swaps, distance after < before; half of them start from neutral mixing, half from a "
        "start the harness's own reference chain prepared BEYOND the target (so that drifting back to neutral mixing ends "
        "farther away); a third of them are MULTI-EDGE: networks of 900-1400 vertices made of 3-/4-/5-cliques only, start prepared "
        "by the harness's reference corner-swap chain mildly assortative but short of the target, 2|E|/(5(s-1)) accepted swaps "
        "(measured after/before <= 0.53 on the unchanged tree over 70 runs); a failure on a label-sorted network whose label-shuffled twin approaches is the open finding "
        "C12.approach.label-orientation, any other failure is reported; non-trivial = at least one accepted swap; "
        "distinct = distinct execution digests")
ASSUMPTIONS = ["approach clause is a bounded-progress observation configured far from the margin (not a theorem)",
               "existing edges keep positive target weight by construction",
               "decision budget exhaustion is inconclusive"]
REAL = ["MarkovChainMonteCarloRewiring, DrawSet, JointExcessJointDegreeMatrices, KeysView",
        "JointDegreeManual.sample_jds_from_jdd + GCMAlgorithmNetwork + EdgeListToNetwork (approach phase)"]
STUB = ["entropy source (decision stream)", "direct clean-network constructor (admissibility phase, label-layout phase)",
        "reference Metropolis chain that prepares non-neutral starts (harness code)", "target matrices (generated)"]

JDDS = [
    {"topos": [{"kind": "clique", "size": 2, "name": "2-clique"}, {"kind": "clique", "size": 3, "name": "3-clique"}],
     "jdd": [[[1, 1], 1], [[3, 0], 1], [[2, 1], 1], [[1, 0], 1]]},
    {"topos": [{"kind": "clique", "size": 2, "name": "2-clique"}],
     "jdd": [[[1], 2], [[2], 2], [[4], 1]]},
    {"topos": [{"kind": "clique", "size": 2, "name": "tree"}, {"kind": "clique", "size": 3, "name": "tri"}],
     "jdd": [[[1, 0], 2], [[2, 1], 2], [[3, 1], 1], [[0, 1], 1]]},
    {"topos": [{"kind": "clique", "size": 3, "name": "3-clique"}],
     "jdd": [[[1], 2], [[2], 2], [[3], 1]]},
    {"topos": [{"kind": "clique", "size": 2, "name": "2-clique"}, {"kind": "cycle", "size": 4, "name": "4-cycle"}],
     "jdd": [[[1, 0], 1], [[2, 1], 1], [[3, 0], 1], [[0, 1], 1]]},
]


def generate(prng, tier, index):
    if index % ORIENTED_EVERY == ORIENTED_AT:
        degs, mult = prng.choice((((1, 2, 4), (4, 2, 1)), ((1, 3), (3, 1)), ((2, 3, 5), (15, 10, 6)), ((1, 2, 3, 4), (12, 6, 4, 3))))
        unit = sum(d * k for d, k in zip(degs, mult))            # stubs per unit of m
        m = max(2, prng.randrange(2400, 4001) // unit)           # 1200-2000 edges
        if (unit * m) % 2:
            m += 1
        sc = {"variant": "clean", "kind": "oriented", "degs": list(degs), "mult": list(mult), "m": m,
              "layout": prng.choice(("ascending", "descending", "shuffled", "shuffled")),
              "mode": prng.choice(("assortative", "disassortative")), "frac": prng.choice((0.2, 0.25, 0.3)),
              "build_seed": prng.randrange(2 ** 32), "search_limit": prng.choice((None, None, 20))}
        if (index // ORIENTED_EVERY) % 3 == 2:
            # MULTI-EDGE motifs: a network made of 3-/4-/5-cliques only (vertices in 1-4 cliques, labels carry no information),
            # start prepared by the harness's reference corner-swap chain mildly assortative but SHORT of the target, |E|/10
            # accepted swaps (the range in which the unchanged library is well behaved on multi-edge motifs from such starts)
            s = prng.choice((3, 4, 5, 5))
            return {"variant": "clean", "kind": "oriented", "clique": s, "nv": prng.randrange(900, 1401), "layout": "shuffled",
                    "mode": "assortative", "prep": prng.choice((0.1, 0.13, 0.15)), "frac": 0.3,
                    "build_seed": prng.randrange(2 ** 32), "search_limit": None, "degs": [], "mult": [], "m": 0}
        if (index // ORIENTED_EVERY) % 2 == 1:
            # start NEARER to the target than neutral mixing, on its far side: the harness's own reference chain first
            # moves the network to a stronger target of the same kind (fraction prep), the library is then asked for
            # the milder one (0.7 * prep).  An acceptance rule that only drifts back to neutral mixing ends farther away.
            m = max(2, prng.randrange(4400, 7001) // unit)
            sc.update(m=m + (unit * m) % 2, layout="shuffled", prep=prng.choice((0.6, 0.7, 0.8)))
            sc["frac"] = round(0.7 * sc["prep"], 3)
        return sc
    if index % APPROACH_EVERY == 0:
        cfg = prng.choice(JDDS)
        return {"variant": "clean", "kind": "approach", "topos": cfg["topos"], "jdd": cfg["jdd"],
                "N": prng.randrange(150, 301), "mode": "assortative",
                "strength": prng.choice((0.01, 0.02, 0.05)), "search_limit": prng.choice((None, 10, 20))}
    sc = rewsim.gen_scenario(prng, tier, index, "C12")
    sc["kind"] = "allowed"
    return sc


def execute(sc, ctx):
    if sc.get("kind") == "approach":
        return execute_approach(sc, ctx)
    if sc.get("kind") == "oriented":
        return execute_oriented(sc, ctx)
    P = "C12"
    tgt0 = {name: {tuple(k): w for k, w in rows} for name, rows in sc["target"].items()}
    names = netsim.names(sc["spec"])
    state = {"swaps": 0, "created": 0}

    def on_state(L, prev, G, last_float, info):
        state["swaps"] = L + 1
        state["final"] = G
        made, gone = rewsim.created_edges(prev, G)
        tgt = info.get("tgt") or tgt0            # the target in force for THIS call (it may have been replaced through the setter)
        for e in made:
            d = G.edges[e]
            t = d.get(TOP)
            ctx.check(f"{P}.allowed")
            state["created"] += 1
            if t not in tgt or e[0] == e[1]:
                ctx.violate(f"{P}.allowed", f"created edge {e} has topology {t!r} / is a loop after {L + 1} swap(s)")
                return False
            i = names.index(t)
            a = list(G.nodes[e[0]][JD]); a[i] -= 1
            b = list(G.nodes[e[1]][JD]); b[i] -= 1
            w1 = tgt[t].get(tuple(a) + tuple(b), 0.0)
            w2 = tgt[t].get(tuple(b) + tuple(a), 0.0)
            if not (w1 > 0.0 and w2 > 0.0):
                ctx.violate(f"{P}.allowed", f"swap {L + 1} created {t!r} edge {e} joining excess degrees {tuple(a)} and {tuple(b)}, "
                                            f"a pairing with target weight {w1!r} ({'absent' if tuple(a) + tuple(b) not in tgt[t] else 'zero'})")
                return False
        return True

    rewsim.run_history(sc, ctx, P, on_state)
    ctx.swaps = state["swaps"]
    if sc.get("pairings_removed"):
        ctx.probe("target_with_removed_pairings")
    ctx.probe("created_edges_checked", state["created"])
    fin = state.get("final")
    ctx.result(state["swaps"], state["created"],
               sorted(tuple(sorted((u, v))) for u, v in fin.edges()) if fin is not None else None)


def make_target(G, topos, mode, strength):
    """Full-support target with the network's own excess distributions q as marginals:
    (1 - s) * diag(q) + s * q q^T  (maximally assortative up to s), so it is reachable by rewiring."""
    names = [t["name"] for t in topos]
    cur = netsim.ref_ejks(G, names)
    ejks = {}
    for name in names:
        m = cur[name]
        h = len(next(iter(m))) // 2 if m else 0
        q = {}
        for k, w in m.items():
            q[k[:h]] = q.get(k[:h], 0.0) + w
        t = {}
        for a in q:
            for b in q:
                t[a + b] = strength * q[a] * q[b] + ((1.0 - strength) * q[a] if a == b else 0.0)
        ejks[name] = t
    return ejks


def execute_approach(sc, ctx):
    P = "C12"
    topos = sc["topos"]
    names = [t["name"] for t in topos]
    src = ctx.source("u:pipeline")
    jdd = {tuple(k): w for k, w in sc["jdd"]}
    net = None
    for attempt in range(12):
        st, cand = netsim.pipeline_network(ctx, src, topos, jdd, sc["N"])
        if st != "ok":
            ctx.violate(f"{P}.raised", f"pipeline (sample + generate) failed: {st} {describe_exc(cand) if st == 'raised' else ''}")
            return
        if netsim.is_clean(cand.G, topos):
            net = cand
            break
        ctx.probe("unclean_pipeline_outcome_rejected")
    if net is None:
        ctx.inconclusive += 1
        return
    G0 = net.G
    E = G0.number_of_edges()
    target = make_target(G0, topos, sc["mode"], sc["strength"])
    before = netsim.ref_ejks(G0, names)
    d0 = sum(netsim.l1_distance(before[n], target[n]) for n in names)
    if d0 < 0.5:
        ctx.probe("approach_skipped_initial_distance_small")
        ctx.inconclusive += 1
        return
    ejks = JointExcessJointDegreeMatrices({ToolsNames.EJKS: target, ToolsNames.EDGE_NAMES: names})
    limit = max(5, E // 4)
    p = {ToolsNames.NETWORK: net, ToolsNames.EJKS: ejks, ToolsNames.CONVERGENCE_LIMIT: limit}
    if sc.get("search_limit") is not None:
        p[ToolsNames.SEARCH_LIMIT] = sc["search_limit"]
    rsrc = ctx.source("u:rewire")
    try:
        mc = MarkovChainMonteCarloRewiring(p)
    except Exception as e:
        ctx.violate(f"{P}.raised", f"constructing the rewiring raised {describe_exc(e)}")
        return
    st, G = ctx.call(rsrc, mc.rewire, budget=400 * limit + 20000, label="rewire[approach]")
    if st == "budget":
        ctx.inconclusive += 1
        ctx.probe("approach_budget_exhausted")
        return
    if st != "ok":
        ctx.violate(f"{P}.raised", f"rewire() on a pipeline network: {st} {describe_exc(G) if st == 'raised' else ''}")
        return
    after = netsim.ref_ejks(G, names)
    d1 = sum(netsim.l1_distance(after[n], target[n]) for n in names)
    ctx.probe("approach_runs")
    ratio = d1 / d0
    ctx.ratio = ratio
    ctx.expect(f"{P}.approach", d1 < d0,
               lambda: f"L1 distance to the {sc['mode']} target went from {d0:.4f} to {d1:.4f} after {limit + 1} accepted swaps "
                       f"on a {G0.number_of_nodes()}-vertex network ({E} edges)")
    # admissibility on the big run as well: full support, so only topology/loop sanity
    ctx.swaps = limit + 1
    ctx.result(round(d0, 9), round(d1, 9))
    ctx.probe("approach_ratio_x1000_sum", int(ratio * 1000))
    ctx.probe("approach_ratio_x1000_max_bucket_%d" % min(10, int(ratio * 10)))


def class_weights(degs, mult, mode, frac):
    """Target weight as a function of the two end DEGREES: the same family as mild_target(), from the exact excess
    distribution q_d ~ d * (number of vertices of degree d)."""
    tot = float(sum(d * k for d, k in zip(degs, mult)))
    q = {d: d * k / tot for d, k in zip(degs, mult)}
    if mode == "assortative":
        s = frac
        return lambda a, b: (1 - s) * q[a] * q[b] + (s * q[a] if a == b else 0.0)
    s = frac * min(v / (1 - v) for v in q.values())
    return lambda a, b: (1 + s) * q[a] * q[b] - (s * q[a] if a == b else 0.0)


def prepare_start(rng, pairs, seen, deg_of, w, sweeps=12):
    """Reference Metropolis chain of the harness (uniform pair of edges, corner of each drawn at random, accept with
    min(1, w(new)/w(old)), simple graph kept): `sweeps` * |E| proposals."""
    E = len(pairs)
    for _ in range(sweeps * E):
        i, j = rng.randrange(E), rng.randrange(E)
        if i == j:
            continue
        a, b = pairs[i] if rng.random() < 0.5 else pairs[i][::-1]
        c, d = pairs[j] if rng.random() < 0.5 else pairs[j][::-1]
        if a == d or c == b:
            continue
        f1, f2 = frozenset((a, d)), frozenset((c, b))
        if f1 in seen or f2 in seen or f1 == f2:
            continue
        r = (w(deg_of[a], deg_of[d]) * w(deg_of[c], deg_of[b])) / (w(deg_of[a], deg_of[b]) * w(deg_of[c], deg_of[d]))
        if r >= 1.0 or rng.random() < r:
            del seen[frozenset((a, b))]
            del seen[frozenset((c, d))]
            pairs[i], pairs[j] = (a, d), (c, b)
            seen[f1], seen[f2] = i, j


def build_cliques(sc):
    """Clean network made only of s-cliques: vertex v is in k_v in 1..4 cliques (k assigned to labels at random), cliques
    edge-disjoint; then `40 x cliques` proposals of the harness's reference corner-swap Metropolis chain (uniform pair of
    cliques, uniform corner of each, symmetric proposal, accept with min(1, prod w(new) / prod w(old))) towards the
    assortative matrix at fraction sc['prep'].  Stub: harness code, not library code."""
    import random as _r
    rng = _r.Random(sc["build_seed"])
    s, n = sc["clique"], sc["nv"]
    k = [rng.choice((1, 2, 3, 4)) for _ in range(n)]
    while sum(k) % s:
        k[rng.randrange(n)] = rng.choice((1, 2, 3, 4))
    cliques, adj = None, None
    for _ in range(20):
        adj = [set() for _ in range(n)]
        cliques = []
        pending = [v for v in range(n) for _ in range(k[v])]
        for _ in range(500):
            if not pending:
                break
            rng.shuffle(pending)
            left = []
            for i in range(0, len(pending), s):
                grp = pending[i:i + s]
                if len(set(grp)) != s or any(b in adj[a] for a in grp for b in grp):
                    left.extend(grp)
                    continue
                for a in grp:
                    adj[a].update(x for x in grp if x != a)
                cliques.append(list(grp))
            pending = left
        if not pending:
            break
    else:
        return None, None
    tot = float(sum(k))
    q = {}
    for c in k:
        q[c - 1] = q.get(c - 1, 0.0) + c / tot
    r = sc["prep"]
    w = {(a, b): (1 - r) * q[a] * q[b] + (r * q[a] if a == b else 0.0) for a in q for b in q}
    for _ in range(40 * len(cliques)):
        i, j = rng.randrange(len(cliques)), rng.randrange(len(cliques))
        if i == j:
            continue
        ci, cj = cliques[i], cliques[j]
        p, qq = rng.randrange(s), rng.randrange(s)
        u0, v0 = ci[p], cj[qq]
        if u0 == v0 or u0 in cj or v0 in ci:
            continue
        un = [x for x in ci if x != u0]
        vn = [x for x in cj if x != v0]
        if any(x in adj[u0] for x in vn) or any(x in adj[v0] for x in un):
            continue
        ratio = 1.0
        for x in vn:
            ratio *= w[(k[u0] - 1, k[x] - 1)] / w[(k[v0] - 1, k[x] - 1)]
        for x in un:
            ratio *= w[(k[v0] - 1, k[x] - 1)] / w[(k[u0] - 1, k[x] - 1)]
        if ratio >= 1.0 or rng.random() < ratio:
            for x in un:
                adj[u0].discard(x); adj[x].discard(u0); adj[v0].add(x); adj[x].add(v0)
            for x in vn:
                adj[v0].discard(x); adj[x].discard(v0); adj[u0].add(x); adj[x].add(u0)
            ci[p], cj[qq] = v0, u0
    topos = [{"kind": "clique", "size": s, "name": f"{s}-clique"}]
    return {"n": n, "topos": topos, "motifs": [{"topo": 0, "verts": list(c)} for c in cliques]}, topos


def build_blocks(sc):
    """Simple 2-clique network with mult[i]*m vertices of degree degs[i], uniform stub matching repaired to a simple
    graph (stub: not library code), vertex labels laid out by degree class as the scenario says."""
    import random as _r
    rng = _r.Random(sc["build_seed"])
    stubs, n, deg_of = [], 0, {}
    for d, k in zip(sc["degs"], sc["mult"]):
        for _ in range(k * sc["m"]):
            stubs += [n] * d
            deg_of[n] = d
            n += 1
    rng.shuffle(stubs)
    pairs = [(stubs[i], stubs[i + 1]) for i in range(0, len(stubs) - 1, 2)]
    seen, bad = {}, []
    for i, (a, b) in enumerate(pairs):
        fs = frozenset((a, b))
        if a == b or fs in seen:
            bad.append(i)
        else:
            seen[fs] = i
    tries = 0
    while bad:
        tries += 1
        if tries > 200000:
            return None, None
        i = bad[-1]
        j = rng.randrange(len(pairs))
        if j == i or j in bad:
            continue
        (a, b), (c, d) = pairs[i], pairs[j]
        f1, f2 = frozenset((a, d)), frozenset((c, b))
        if a == d or c == b or f1 in seen or f2 in seen or f1 == f2:
            continue
        del seen[frozenset((c, d))]
        pairs[i], pairs[j] = (a, d), (c, b)
        seen[f1], seen[f2] = i, j
        bad.pop()
    if sc.get("prep"):
        prepare_start(rng, pairs, seen, deg_of, class_weights(sc["degs"], sc["mult"], sc["mode"], sc["prep"]))
    if sc["layout"] == "descending":
        perm = list(range(n - 1, -1, -1))
    elif sc["layout"] == "shuffled":
        perm = list(range(n))
        rng.shuffle(perm)
    else:
        perm = list(range(n))
    topos = [{"kind": "clique", "size": 2, "name": "2-clique"}]
    spec = {"n": n, "topos": topos, "motifs": [{"topo": 0, "verts": [perm[a], perm[b]]} for a, b in pairs]}
    return spec, topos


def mild_target(G, names, mode, frac):
    """Full-support target with the network's own excess distribution q as marginals, a fraction `frac` of the way from
    neutral mixing q q^T to the most assortative / most disassortative matrix with those marginals."""
    cur = netsim.ref_ejks(G, names)
    out = {}
    for name in names:
        m = cur[name]
        h = len(next(iter(m))) // 2
        q = {}
        for k, w in m.items():
            q[k[:h]] = q.get(k[:h], 0.0) + w
        if mode == "assortative":
            s = frac
            out[name] = {a + b: (1 - s) * q[a] * q[b] + (s * q[a] if a == b else 0.0) for a in q for b in q}
        else:
            s = frac * min(v / (1 - v) for v in q.values())
            out[name] = {a + b: (1 + s) * q[a] * q[b] - (s * q[a] if a == b else 0.0) for a in q for b in q}
    return out


def oriented_run(sc, ctx, stream):
    """One rewiring of the scenario's network: (status, d0, d1, E, n) with status ok / skip / budget / raised."""
    spec, topos = build_cliques(sc) if sc.get("clique") else build_blocks(sc)
    if spec is None:
        return "skip", None, None, 0, 0
    names = [t["name"] for t in topos]
    net = netsim.build_network(spec)
    G0 = net.G
    E = G0.number_of_edges()
    target = mild_target(G0, names, sc["mode"], sc["frac"])
    before = netsim.ref_ejks(G0, names)
    d0 = sum(netsim.l1_distance(before[n], target[n]) for n in names)
    noise = 0.5 * (sum(len(target[n]) for n in names) / E) ** 0.5         # ~ measured L1 sampling noise at equilibrium
    if d0 < 4 * noise:
        return "skip", d0, None, E, G0.number_of_nodes()
    ejks = JointExcessJointDegreeMatrices({ToolsNames.EJKS: target, ToolsNames.EDGE_NAMES: names})
    limit = (2 * E) // (5 * (sc["clique"] - 1)) if sc.get("clique") else E     # same number of moved edges for every clique size: E/5, E/7.5, E/10
    p = {ToolsNames.NETWORK: net, ToolsNames.EJKS: ejks, ToolsNames.CONVERGENCE_LIMIT: limit}
    if sc.get("search_limit") is not None:
        p[ToolsNames.SEARCH_LIMIT] = sc["search_limit"]
    rsrc = ctx.source(stream)
    try:
        mc = MarkovChainMonteCarloRewiring(p)
    except Exception as e:
        ctx.violate("C12.raised", f"constructing the rewiring raised {describe_exc(e)}")
        return "raised", d0, None, E, G0.number_of_nodes()
    st, G = ctx.call(rsrc, mc.rewire, budget=400 * limit + 20000, label=f"rewire[{stream}]")
    if st == "budget":
        return "budget", d0, None, E, G0.number_of_nodes()
    if st != "ok":
        ctx.violate("C12.raised", f"rewire() on a directly built 2-clique network: {st} {describe_exc(G) if st == 'raised' else ''}")
        return "raised", d0, None, E, G0.number_of_nodes()
    after = netsim.ref_ejks(G, names)
    d1 = sum(netsim.l1_distance(after[n], target[n]) for n in names)
    return "ok", d0, d1, E, G0.number_of_nodes()


def execute_oriented(sc, ctx):
    """Bounded-step progress on a directly built 2-clique network, neutral start, mild target with consistent marginals,
    |E| accepted swaps; vertex LABELS laid out by degree class (a joint degree sequence sorted by degree) or shuffled.
    A failure on a label-sorted network whose label-shuffled twin (same build, same target) does approach carries the
    fingerprint of the open finding FINDING; any other failure is reported."""
    P = "C12"
    st, d0, d1, E, n = oriented_run(sc, ctx, "u:rewire")
    if st == "skip":
        ctx.probe("oriented_skipped_initial_distance_small")
        ctx.inconclusive += 1
        return
    if st == "budget":
        ctx.inconclusive += 1
        ctx.probe("oriented_budget_exhausted")
        return
    if st != "ok":
        return
    ratio = d1 / d0
    ctx.ratio = ratio
    ctx.swaps = E + 1
    ctx.probe("oriented_runs")
    ctx.probe(f"oriented_layout_{sc['layout']}")
    if sc.get("clique"):
        ctx.probe("oriented_clique_network_runs")
        ctx.probe("oriented_clique_ratio_bucket_%d" % min(10, int(ratio * 10)))
    elif sc.get("prep"):
        ctx.probe("oriented_prepared_start_runs")
        ctx.probe("oriented_prepared_ratio_bucket_%d" % min(10, int(ratio * 10)))
    ctx.check(f"{P}.approach")
    if not d1 < d0:
        what = (f"{n}-vertex network of {sc['clique']}-cliques ({E} edges, vertices in 1-4 cliques)" if sc.get("clique") else
                f"{n}-vertex 2-clique network ({E} edges, degrees {sc['degs']})")
        nsw = ((2 * E) // (5 * (sc["clique"] - 1)) if sc.get("clique") else E) + 1
        detail = (f"L1 distance to the mildly {sc['mode']} full-support target went from {d0:.4f} to {d1:.4f} after "
                  f"{nsw} accepted swaps on a {what} whose vertex "
                  f"labels are in {sc['layout']} order of degree"
                  + (f", start prepared by the harness at fraction {sc['prep']} of the way to the extreme {sc['mode']} matrix "
                     f"(target: fraction {sc['frac']})" if sc.get("prep") else ""))
        finding = None
        if sc["layout"] != "shuffled":
            cst, c0, c1, _, _ = oriented_run(dict(sc, layout="shuffled"), ctx, "u:rewire-control")
            ctx.probe("oriented_control_runs")
            if cst == "ok" and c1 < c0:
                finding = FINDING
                detail += f"; the same network with its labels shuffled approaches the same target ({c0:.4f} -> {c1:.4f})"
            elif cst == "ok":
                detail += f"; the same network with its labels shuffled does not approach it either ({c0:.4f} -> {c1:.4f})"
        ctx.violate(f"{P}.approach", detail, finding=finding)
    ctx.result(round(d0, 9), round(d1, 9))
    if sc["layout"] == "shuffled":
        ctx.probe("oriented_shuffled_ratio_x1000_sum", int(ratio * 1000))
        ctx.probe("oriented_shuffled_ratio_bucket_%d" % min(10, int(ratio * 10)))


def nontrivial(sc, ctx):
    return getattr(ctx, "swaps", 0) >= 1


def shrink(sc):
    if sc.get("kind") == "approach":
        if sc["N"] > 150:
            yield dict(sc, N=150)
        return
    if sc.get("kind") == "oriented" and sc.get("clique"):
        if sc["nv"] > 300:
            yield dict(sc, nv=sc["nv"] * 2 // 3)
        return
    if sc.get("kind") == "oriented":
        if sc["m"] > 8:
            yield dict(sc, m=(sc["m"] * 2 // 3) + (sc["m"] * 2 // 3) % 2)
        if sc.get("search_limit") is not None:
            yield dict(sc, search_limit=None)
        return
    from .c11 import shrink as s11
    for c in s11(sc):
        if c.get("target_mode") == "uniform" and sc.get("target_mode") != "uniform":
            continue    # keep the removed pairings: they are what the clause is about
        if c["spec"] is not sc["spec"]:
            continue
        yield c
