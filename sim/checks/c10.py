"""C10 — MPCC labels partition the edges into maximal-first disjoint cliques.

MPCC under scheduled clique orders (the shuffle among equal-sized cliques is resolved by the simulator:
uniform / identity / reverse / rotation ...), one or two consecutive covers with different limits on
the same graph, aborts mid-shuffle then a new cover.  Oracle: partition + greedy maximality, with the
oracle enumerating all cliques itself.
"""
import ast
from itertools import combinations

import networkx as nx

from gcmpy.covers.mpcc import MPCC

from ..engine import describe_exc
from .. import interesting

ID = "C10"
RUNS = {"quick": 32000, "thorough": 200000, "thorough_s": 300}
CHUNK = 200
RUN_TIMEOUT = 1200.0
RULE = ("seeded simple loop-free graphs with 1..9 vertices (thorough ..11) incl. isolated vertices: G(n,p), planted "
        "overlapping cliques, complete graphs, triangle chains; arbitrary non-negative labels and edge insertion order; "
        "max_size in {0,2,3,4,5}; 1-3 consecutive covers on the same graph object, in 40% of runs with edges moved in between "
        "(vertex and edge counts unchanged); shuffle schedules uniform/identity/reverse/"
        "rotation/adjacent swaps; aborts mid-shuffle then a new cover; non-trivial = graph has >= 2 edges; distinct = "
        "distinct execution digests; 12% of the runs relabel the vertices by singleton frozensets (not totally ordered), tuples, strings or "
        "ints and strings side by side (cover mapped back and judged by the same oracle); 8% add one or two vertices whose label is the tuple of an edge's or a "
        "triangle's vertices; run indexes 1000-2251 walk through EVERY graph with an edge on up to 7 vertices (graph atlas); 0.4% of runs: a complete graph of 12-16 vertices plus a pendant edge; thorough tier only: one "
        "cycle of 6e5 vertices (more than a million trivial cliques) and one 21-/22-clique with a triangle and a pendant edge "
        "attached (2-4 million nested cliques, limit 0 / 100 / 2^31) per invocation; both tiers: one graph of more than 2^20 vertices (almost all isolated, small "
        "cliques at low positions, beyond 2^20 and across, incl. pairs that alias under a 20-bit packing of positions)")
ASSUMPTIONS = ["oracle enumerates all cliques by brute force over vertex subsets grown from adjacency (independent of "
               "nx.enumerate_all_cliques)", "vertex labels are non-negative ints (label parsing splits on '-')"]
REAL = ["gcmpy.covers.mpcc.MPCC", "networkx enumerate_all_cliques (inside the library)", "CPython random.shuffle"]
STUB = ["entropy source (decision stream)"]

SHUFFLES = ("uniform", "identity", "reverse", "rot", "adjswap", "sorted_blocks")


def gen_graph(prng, big):
    nmax = 11 if big else 9
    n = prng.randrange(1, nmax + 1)
    kind = prng.choice(("gnp", "gnp", "planted", "planted", "chain", "complete"))
    edges = set()
    if kind == "gnp":
        p = prng.choice((0.2, 0.4, 0.6, 0.8) if n <= 8 else (0.2, 0.4, 0.5))
        edges = {(i, j) for i in range(n) for j in range(i + 1, n) if prng.random() < p}
    elif kind == "planted" and n >= 3:
        for _ in range(prng.randrange(1, 5)):
            q = prng.sample(range(n), prng.randrange(2, min(5, n) + 1))
            edges.update(combinations(sorted(q), 2))
    elif kind == "chain" and n >= 3:
        for i in range(n - 2):
            edges.update({(i, i + 1), (i + 1, i + 2)})
            if prng.random() < 0.8:
                edges.add((i, i + 2))
    elif kind == "complete":
        n = min(n, 7)
        edges = set(combinations(range(n), 2))
    labels = list(range(n)) if prng.random() < 0.5 else sorted(prng.sample(range(0, 50), n))
    if prng.random() < 0.06:
        off = prng.choice((250, 995, 2 ** 31 - 3, 2 ** 63 + 5))
        labels = [x + off for x in labels]
    if prng.random() < 0.3:
        prng.shuffle(labels)
    if prng.random() < 0.05:
        labels = interesting.hash_twins(prng, labels)           # two vertices with equal hashes
    es = sorted([labels[a], labels[b]] for a, b in edges)
    prng.shuffle(es)
    es = [e if prng.random() < 0.5 else e[::-1] for e in es]
    nodes = list(labels)
    if prng.random() < 0.04:
        top = max(nodes) if nodes else 0
        nodes += [top + 1 + i for i in range(prng.choice((30, 120, 300)))]      # many isolated vertices
    prng.shuffle(nodes)
    return nodes, es


def generate(prng, tier, index):
    if tier == "thorough" and index == 0:
        # scale (thorough tier only, ~1 minute): more than a million cliques in total (vertices + edges), all of them
        # trivial - anything that caps, batches or truncates the enumeration shows here and nowhere else
        n = prng.choice((600000, 650000))
        return {"variant": "clean", "nodes": None, "edges": None, "cycle": n, "limits": [0], "policy": {"shuffle": ["uniform"]},
                "attrs": False, "scale": True}
    if tier == "thorough" and index == 1:
        # scale in the OTHER direction (thorough tier only, ~1-2 minutes, ~1 GB): one clique of 21-22 vertices, i.e. 2-4
        # million cliques nested inside each other, with an unbounded or effectively unbounded size limit
        return {"variant": "clean", "nodes": None, "edges": None, "bigclique": prng.choice((21, 21, 22)),
                "limits": [0, prng.choice((100, 2 ** 31))], "policy": {"shuffle": ["uniform"]}, "attrs": False, "scale": True}
    if index == 2:
        # scale in a THIRD direction (both tiers: ~15 s and ~1 GB in one worker): more than 2^20 vertices, almost all isolated, with small
        # cliques sitting at low positions, at positions beyond 2^20, and across (anything indexed, packed or hashed by vertex
        # POSITION with a fixed width only shows when the position space is exceeded)
        return {"variant": "clean", "nodes": None, "edges": None, "manyverts": 2 ** 20 + prng.randrange(140, 200),
                "limits": [prng.choice((0, 3, 4))], "policy": {"shuffle": [prng.choice(("uniform", "identity", "reverse"))]},
                "attrs": False, "scale": True, "place_seed": prng.randrange(2 ** 31)}
    at = interesting.atlas_graph(index - interesting.ATLAS_FROM)
    if at is not None:
        # catalogue completeness: this block of run indexes walks through EVERY graph with an edge on up to 7 vertices
        # (isolated vertices kept), under scheduler-chosen labels, insertion order, limits and shuffles
        nv, es0 = at
        labs = prng.sample(range(0, 40), nv)
        nodes = list(labs)
        prng.shuffle(nodes)
        es = [[labs[a], labs[b]] if prng.random() < 0.5 else [labs[b], labs[a]] for a, b in es0]
        prng.shuffle(es)
    else:
        nodes, es = gen_graph(prng, tier == "thorough")
    if at is None and prng.random() < 0.004:
        # a complete graph beyond the usual sizes (4e3 - 6.5e4 nested cliques) plus a pendant edge
        k = prng.randrange(12, 17)
        nodes = list(range(k + 1))
        es = [[a, b] for a in range(k) for b in range(a + 1, k)] + [[0, k]]
        prng.shuffle(es)
    variant = "faults" if index % 5 == 4 else "clean"
    ncalls = prng.choice((1, 1, 2))
    sc = {"variant": variant, "nodes": nodes, "edges": es,
          "limits": [prng.choice((0, 0, 2, 3, 4, 5)) if prng.random() > 0.05 else prng.choice((6, 7, 8, 100, 2 ** 31)) for _ in range(ncalls)],
          "policy": {"shuffle": [prng.choice(SHUFFLES) for _ in range(ncalls + 1)]},
          "attrs": prng.random() < 0.3}
    if prng.random() < 0.12:
        sc["label_type"] = prng.choice(("frozenset", "frozenset", "tuple", "str", "mixed"))
    elif prng.random() < 0.08 and es:
        # one or two extra vertices labelled by the tuple of an edge's end points / a triangle's vertices, isolated or joined to a member
        top = max(nodes) + 1
        adj = {}
        for a, b in es:
            adj.setdefault(a, set()).add(b); adj.setdefault(b, set()).add(a)
        cands = [sorted(e) for e in es]
        cands += [sorted((a, b, c)) for a, b in es for c in adj[a] & adj[b]][:6]
        sc["nested"] = {}
        for i in range(prng.choice((1, 1, 2))):
            members = prng.choice(cands)
            if prng.random() < 0.5:
                members = members[::-1]
            if members in sc["nested"].values():
                continue                          # two vertices must not get the same label
            sc["nested"][str(top + i)] = members
            sc["nodes"] = sc["nodes"] + [top + i]
            if prng.random() < 0.5:
                sc["edges"] = sc["edges"] + [[top + i, prng.choice(members)]]
    if variant == "faults":
        sc["abort_at"] = prng.randrange(0, 8)
        if prng.random() < 0.5:
            sc["abort_line"] = prng.choice((prng.randrange(0, 30), prng.randrange(0, 600)))
    # histories: between two covers of the SAME graph object, optionally move edges (vertex and edge counts unchanged)
    if prng.random() < 0.4 and es and len(nodes) >= 3:
        sc["limits"] = sc["limits"] + [prng.choice((0, 0, 3, 4))]
        cur = {frozenset(e) for e in es}
        moves = []
        for gap in range(len(sc["limits"]) - 1):
            mv = []
            for _ in range(prng.choice((0, 1, 1, 2))):
                non = [(a, b) for i, a in enumerate(sorted(nodes)) for b in sorted(nodes)[i + 1:] if frozenset((a, b)) not in cur]
                if not non or not cur:
                    break
                out_e = sorted(prng.choice(sorted(map(sorted, cur))))
                in_e = list(prng.choice(non))
                cur.discard(frozenset(out_e))
                cur.add(frozenset(in_e))
                mv.append([out_e, in_e])
            moves.append(mv)
        sc["moves"] = moves
        sc["policy"] = {"shuffle": [prng.choice(SHUFFLES) for _ in range(len(sc["limits"]) + 1)]}
    return sc


def all_cliques(adj, limit):
    """All cliques with >= 2 vertices (and <= limit when limit > 0)."""
    out = []
    verts = sorted(adj)

    def grow(c, cand):
        if len(c) >= 2:
            out.append(frozenset(c))
        if limit and len(c) >= limit:
            return
        for i, v in enumerate(cand):
            grow(c + [v], [w for w in cand[i + 1:] if w in adj[v]])

    grow([], verts)
    return out


def parse(label):
    parts = label.split("-")
    size = int(parts[0])
    cid = int(parts[-1])
    members = ast.literal_eval("-".join(parts[1:-1]))
    return size, tuple(members), cid


def verify(sc, ctx, G, R, limit, tag, edges=None):
    P = "C10"
    nodes = set(sc["nodes"])
    cur_edges = sc["edges"] if edges is None else edges
    E = {frozenset(e) for e in cur_edges}
    if not isinstance(R, nx.Graph):
        ctx.violate(f"{P}.raised", f"MPCC returned {type(R).__name__}{tag}")
        return
    ctx.expect(f"{P}.same", set(R.nodes()) == nodes and {frozenset(e) for e in R.edges()} == E
               and set(G.nodes()) == nodes and {frozenset(e) for e in G.edges()} == E,
               lambda: f"vertex/edge set changed by covering: {R.number_of_nodes()} vertices {R.number_of_edges()} edges, "
                       f"input had {len(nodes)} and {len(E)}{tag}")
    ctx.check(f"{P}.labelled")
    by_label = {}
    for u, v, d in R.edges(data=True):
        lab = d.get("clique")
        if not isinstance(lab, str):
            ctx.violate(f"{P}.labelled", f"edge {sorted((u, v))} has no cover label (limit={limit}){tag}")
            return
        try:
            size, members, cid = parse(lab)
        except Exception:
            ctx.violate(f"{P}.labelled", f"edge {sorted((u, v))} label {lab!r} is not of the form size-members-id{tag}")
            return
        by_label.setdefault(lab, []).append(frozenset((u, v)))
    ctx.check(f"{P}.complete")
    ctx.check(f"{P}.limit")
    ctx.check(f"{P}.ids")
    ids = {}
    size_of_edge = {}
    for lab, es in sorted(by_label.items()):
        size, members, cid = parse(lab)
        if len(members) != size or len(set(members)) != size:
            ctx.violate(f"{P}.complete", f"label {lab!r}: member list has {len(members)} vertices, stated size {size}{tag}")
            return
        want = {frozenset(p) for p in combinations(members, 2)}
        if set(es) != want or len(es) != len(want):
            ctx.violate(f"{P}.complete", f"edges labelled {lab!r} are {sorted(map(sorted, es))}, expected all pairs of {list(members)}{tag}")
            return
        if limit and size > limit:
            ctx.violate(f"{P}.limit", f"label {lab!r} exceeds the size limit {limit}{tag}")
            return
        if ids.setdefault(cid, lab) != lab:
            ctx.violate(f"{P}.ids", f"id {cid} used by two cliques: {ids[cid]!r} and {lab!r}{tag}")
            return
        for e in es:
            size_of_edge[e] = size
    # greedy maximality
    ctx.check(f"{P}.greedy")
    adj = {v: set() for v in nodes}
    for e in cur_edges:
        adj[e[0]].add(e[1])
        adj[e[1]].add(e[0])
    for q in all_cliques(adj, limit):
        if not any(size_of_edge.get(frozenset(p), 0) >= len(q) for p in combinations(sorted(q), 2)):
            ctx.violate(f"{P}.greedy", f"clique {sorted(q)} has no edge in a cover clique of size >= {len(q)} "
                                       f"(its edges lie in cliques of sizes "
                                       f"{sorted(size_of_edge.get(frozenset(p), 0) for p in combinations(sorted(q), 2))}, limit={limit}){tag}")
            return
    if any(len(set(es)) >= 3 for es in by_label.values()):
        ctx.probe("cover_has_clique_of_3_or_more")


def execute_bigclique(sc, ctx):
    """K_n plus a pendant edge at vertex 0 and a triangle hanging off vertex 1; limit 0 or >= n.  The greedy cover is
    forced: the n-clique (unique largest), then the triangle, then the pendant edge."""
    for limit in sc["limits"]:
        _bigclique_once(sc, ctx, limit)


def _bigclique_once(sc, ctx, limit):
    P = "C10"
    n = sc["bigclique"]
    G = nx.complete_graph(n)
    G.add_edge(0, n)
    G.add_edges_from([(1, n + 1), (1, n + 2), (n + 1, n + 2)])
    E = G.number_of_edges()
    src = ctx.source("order", sc.get("policy"))
    st, R = ctx.call(src, MPCC, G, limit, budget=None, label="MPCC[big clique]")
    if st != "ok":
        ctx.violate(f"{P}.raised", f"MPCC(max_size={limit}) on K_{n} plus a pendant edge and a triangle: {st} {describe_exc(R) if st == 'raised' else ''}")
        return
    ctx.probe("bigclique_run_order", n)
    ctx.check(f"{P}.same"); ctx.check(f"{P}.labelled"); ctx.check(f"{P}.complete"); ctx.check(f"{P}.ids"); ctx.check(f"{P}.greedy")
    if R.number_of_nodes() != n + 3 or R.number_of_edges() != E:
        ctx.violate(f"{P}.same", f"cover has {R.number_of_nodes()} vertices and {R.number_of_edges()} edges, the graph {n + 3} and {E}")
        return
    by = {}
    for u, v, d in R.edges(data=True):
        lab = d.get("clique")
        if not isinstance(lab, str):
            ctx.violate(f"{P}.labelled", f"edge {sorted((u, v))} carries no cover label")
            return
        by.setdefault(lab, []).append(frozenset((u, v)))
    want = {frozenset(range(n)): n * (n - 1) // 2, frozenset((1, n + 1, n + 2)): 3, frozenset((0, n)): 1}
    got, ids = {}, set()
    for lab, es in by.items():
        size, members, cid = parse(lab)
        if cid in ids:
            ctx.violate(f"{P}.ids", f"id {cid} used by two labels")
            return
        ids.add(cid)
        if size != len(set(members)) or {frozenset(p) for p in combinations(sorted(set(members)), 2)} != set(es):
            ctx.violate(f"{P}.complete", f"label of size {size} with {len(set(members))} members is carried by {len(es)} edges "
                                         f"that are not exactly the pairs of its members")
            return
        got[frozenset(members)] = len(es)
    if got != want:
        big = max((len(m) for m in got), default=0)
        ctx.violate(f"{P}.greedy", f"K_{n} (+ triangle + pendant edge), max_size={limit}: cover cliques of sizes "
                                    f"{sorted((len(m) for m in got), reverse=True)[:6]}..., the largest clique ({n} vertices) must be "
                                    f"one cover clique (largest found: {big})")
    ctx.nedges = E
    ctx.result(n, limit, sorted(len(m) for m in got))


def execute_manyverts(sc, ctx):
    """n > 2^20 vertices inserted in label order, vertex-disjoint cliques of 2-4 vertices as the only edges: every component is
    a clique, so the cover is forced (each component one label, when the limit allows its size).  Components are placed on
    low positions, on positions >= 2^20 and across, including pairs (a, 2^20 + c) / (a + 1, c) that alias under a 20-bit
    packing of positions."""
    import random as _r
    P = "C10"
    n, limit = sc["manyverts"], sc["limits"][0]
    rng = _r.Random(sc["place_seed"])
    W = 2 ** 20
    low = list(range(0, 128))
    high = list(range(W, n))
    rng.shuffle(low); rng.shuffle(high)
    comps = []
    used = set()

    def take(vs):
        if any(v in used for v in vs) or len(set(vs)) != len(vs):
            return False
        used.update(vs)
        comps.append(list(vs))
        return True
    # aliasing pairs for a 20-bit position width: with a even and c > a + 1 the edges (a, 2^20 + c) and (a + 1, c) get the same
    # packed key under (pos_u << 20) | pos_v as well as under (pos_u << 20) + pos_v
    for c in rng.sample(range(60, 128), 8):
        a = 2 * rng.randrange(0, 25)
        if W + c < n:
            take([a, W + c]) and take([a + 1, c])
    for _ in range(12):
        k = rng.choice((2, 3, 3, 4))
        pool = rng.choice((low, high, low + high))
        vs = [v for v in pool if v not in used][:k] if pool is not (low + high) else rng.sample([v for v in low + high if v not in used], k)
        if len(vs) == k:
            take(vs)
    G = nx.Graph()
    G.add_nodes_from(range(n))
    for c in comps:
        G.add_edges_from(combinations(c, 2))
    E = G.number_of_edges()
    src = ctx.source("order", sc.get("policy"))
    st, R = ctx.call(src, MPCC, G, limit, budget=None, label="MPCC[many vertices]")
    if st != "ok":
        ctx.violate(f"{P}.raised", f"MPCC(max_size={limit}) on {n} vertices with {len(comps)} small cliques: {st} {describe_exc(R) if st == 'raised' else ''}")
        return
    ctx.probe("manyverts_run_vertices", n)
    ctx.check(f"{P}.same"); ctx.check(f"{P}.labelled"); ctx.check(f"{P}.complete"); ctx.check(f"{P}.ids"); ctx.check(f"{P}.greedy")
    if R.number_of_nodes() != n or R.number_of_edges() != E:
        ctx.violate(f"{P}.same", f"cover has {R.number_of_nodes()} vertices and {R.number_of_edges()} edges, the graph {n} and {E}")
        return
    by, ids = {}, set()
    for u, v, d in R.edges(data=True):
        lab = d.get("clique")
        if not isinstance(lab, str):
            ctx.violate(f"{P}.labelled", f"edge {sorted((u, v))} (positions {'beyond' if max(u, v) >= W else 'below'} 2^20) carries no cover label "
                                         f"on a graph of {n} vertices")
            return
        by.setdefault(lab, []).append(frozenset((u, v)))
    got = {}
    for lab, es in by.items():
        size, members, cid = parse(lab)
        if cid in ids:
            ctx.violate(f"{P}.ids", f"id {cid} used by two labels")
            return
        ids.add(cid)
        if size != len(set(members)) or {frozenset(p) for p in combinations(sorted(set(members)), 2)} != set(es):
            ctx.violate(f"{P}.complete", f"label of size {size} ({sorted(set(members))}) is carried by edges that are not exactly the pairs of its members")
            return
        got[frozenset(members)] = len(es)
    for c in comps:
        if limit in (0,) or len(c) <= limit:
            if frozenset(c) not in got:
                ctx.violate(f"{P}.greedy", f"component {sorted(c)} is a {len(c)}-clique (max_size={limit}) but the cover splits it into "
                                           f"{sorted(sorted(m) for m in got if m <= frozenset(c))} on a graph of {n} vertices")
                return
    ctx.nedges = E
    ctx.result(n, limit, sorted(len(m) for m in got))


def execute_scale(sc, ctx):
    if sc.get("manyverts"):
        return execute_manyverts(sc, ctx)
    if sc.get("bigclique"):
        return execute_bigclique(sc, ctx)
    P = "C10"
    n = sc["cycle"]
    G = nx.cycle_graph(n)
    src = ctx.source("order", sc.get("policy"))
    st, R = ctx.call(src, MPCC, G, 0, budget=None, label="MPCC[scale]")
    if st != "ok":
        ctx.violate(f"{P}.raised", f"MPCC on a {n}-cycle: {st} {describe_exc(R) if st == 'raised' else ''}")
        return
    ctx.probe("scale_run_edges", n)
    ctx.check(f"{P}.same"); ctx.check(f"{P}.labelled"); ctx.check(f"{P}.complete"); ctx.check(f"{P}.ids")
    if R.number_of_nodes() != n or R.number_of_edges() != n:
        ctx.violate(f"{P}.same", f"cover of a {n}-cycle has {R.number_of_nodes()} vertices and {R.number_of_edges()} edges")
        return
    ids = set()
    unl = 0
    for u, v, d in R.edges(data=True):
        lab = d.get("clique")
        if not isinstance(lab, str):
            unl += 1
            continue
        size, members, cid = parse(lab)
        if size != 2 or set(members) != {u, v}:
            ctx.violate(f"{P}.complete", f"edge {sorted((u, v))} of the cycle carries label {lab!r}")
            return
        if cid in ids:
            ctx.violate(f"{P}.ids", f"id {cid} used twice on the {n}-cycle")
            return
        ids.add(cid)
    if unl:
        ctx.violate(f"{P}.labelled", f"{unl} of the {n} edges of a {n}-cycle carry no cover label")
    ctx.nedges = n
    ctx.result(n, unl)


def label_fn(kind):
    """Vertex labels of another TYPE than int (the scenario itself stays in ints): singleton frozensets as networkx's
    quotient graphs produce them (hashable, but NOT totally ordered: neither a < b nor b < a), tuples, strings, or
    ints and strings side by side (not comparable at all)."""
    return {None: (lambda v: v), "frozenset": (lambda v: frozenset((v,))), "tuple": (lambda v: (v, "x")),
            "str": (lambda v: f"v{v}"), "mixed": (lambda v: v if v % 2 == 0 else f"v{v}")}[kind]


def back_to_ints(R, inv):
    """The cover of a relabelled graph as a cover of the int-labelled scenario graph: vertices mapped back, every label
    string rebuilt as size-[members]-id with the members read off the edges that carry it (member reprs of foreign
    types cannot be parsed)."""
    H = nx.Graph()
    H.add_nodes_from(inv[v] for v in R.nodes())
    groups = {}
    for u, v, d in R.edges(data=True):
        lab = d.get("clique")
        H.add_edge(inv[u], inv[v])
        if isinstance(lab, str) and "-" in lab:
            groups.setdefault(lab, set()).update((inv[u], inv[v]))
    for u, v, d in R.edges(data=True):
        lab = d.get("clique")
        if isinstance(lab, str) and "-" in lab:
            H.edges[inv[u], inv[v]]["clique"] = f"{lab.split('-', 1)[0]}-{sorted(groups[lab])}-{lab.rsplit('-', 1)[1]}"
        elif lab is not None:
            H.edges[inv[u], inv[v]]["clique"] = lab
        for k, x in d.items():
            if k != "clique":
                H.edges[inv[u], inv[v]][k] = x
    return H


def execute(sc, ctx):
    if sc.get("scale"):
        return execute_scale(sc, ctx)
    P = "C10"
    f = label_fn(sc.get("label_type"))
    if sc.get("nested"):
        # extra vertices whose LABEL is the tuple of the labels of an edge / a triangle of this very graph (hashable containers
        # of vertices are legal vertices; anything that takes a container of vertices may mistake them for one vertex)
        nested = {int(k): tuple(v) for k, v in sc["nested"].items()}
        f = (lambda v, g=f: nested[v] if v in nested else g(v))
        ctx.probe("vertex_labelled_by_a_tuple_of_other_vertices")
    inv = {f(v): v for v in sc["nodes"]}
    if len(inv) != len(sc["nodes"]):
        from ..simrandom import HarnessError
        raise HarnessError("scenario maps two vertices to one label")
    if sc.get("label_type"):
        ctx.probe(f"vertex_labels_of_type_{sc['label_type']}")
    G = nx.Graph()
    G.add_nodes_from(f(v) for v in sc["nodes"])
    G.add_edges_from([(f(e[0]), f(e[1])) for e in sc["edges"]])
    if sc.get("attrs"):
        for i, (u, v) in enumerate(G.edges()):
            G.edges[u, v]["topology"] = f"t{i % 2}"
    src = ctx.source("order", sc.get("policy"))
    tag = ""
    cur = [list(e) for e in sc["edges"]]
    for k, limit in enumerate(sc["limits"]):
        if k > 0 and sc.get("moves") and k - 1 < len(sc["moves"]):
            for out_e, in_e in sc["moves"][k - 1]:
                if G.has_edge(f(out_e[0]), f(out_e[1])) and not G.has_edge(f(in_e[0]), f(in_e[1])):
                    G.remove_edge(f(out_e[0]), f(out_e[1]))
                    G.add_edge(f(in_e[0]), f(in_e[1]))
                    cur = [e for e in cur if frozenset(e) != frozenset(out_e)] + [list(in_e)]
                    ctx.probe("edge_moved_between_covers")
        if k == 0 and sc["variant"] == "faults":
            if sc.get("abort_line") is not None:
                st, _ = ctx.call(src, MPCC, G, limit, abort_at_line=sc["abort_line"], budget=100000, label="MPCC[abort at line]")
            else:
                st, _ = ctx.call(src, MPCC, G, limit, abort_at=sc.get("abort_at", 0), budget=100000, label="MPCC")
            if st == "abort":
                tag = " (cover after an aborted one on the same graph)"
                ctx.probe("cover_after_abort")
                if {frozenset((inv[a], inv[b])) for a, b in G.edges()} != {frozenset(e) for e in cur}:
                    ctx.violate(f"{P}.same", "an aborted cover changed the graph's edge set")
                    return
        st, R = ctx.call(src, MPCC, G, limit, budget=100000, label=f"MPCC[{limit}]")
        if st != "ok":
            ctx.violate(f"{P}.raised", f"MPCC(max_size={limit}): {st} {describe_exc(R) if st == 'raised' else ''}{tag}")
            return
        if k > 0:
            tag = " (second cover on the same graph)"
            ctx.probe("second_cover_same_graph")
        if (sc.get("label_type") or sc.get("nested")) and isinstance(R, nx.Graph):
            try:
                Gi, Ri = back_to_ints(G, inv), back_to_ints(R, inv)
            except KeyError as e:
                ctx.violate(f"{P}.same", f"the cover contains a vertex that is not in the graph: {e!r}{tag}")
                return
            verify(sc, ctx, Gi, Ri, limit, tag + (f" (vertex labels of type {sc['label_type']})" if sc.get("label_type") else
                                                        f" (vertices {sorted(sc['nested'])} are labelled by the tuples {list(sc['nested'].values())} of other vertices)"), edges=cur)
        else:
            verify(sc, ctx, G, R, limit, tag, edges=cur)
        ctx.result(limit, sorted(d.get("clique", "") for _, _, d in R.edges(data=True)) if isinstance(R, nx.Graph) else "")
    ctx.nedges = len(sc["edges"])
    ctx.probe("wide_shuffle_decisions", src.wide)


def nontrivial(sc, ctx):
    return getattr(ctx, "nedges", 0) >= 2


def shrink(sc):
    if sc.get("scale"):
        return
    if sc["variant"] == "faults":
        yield dict(sc, variant="clean")
    if len(sc["limits"]) > 1:
        yield dict(sc, limits=sc["limits"][1:])
        yield dict(sc, limits=sc["limits"][:1])
    es = sc["edges"]
    for v in list(sc["nodes"]):
        if len(sc["nodes"]) > 1:
            yield dict(sc, nodes=[x for x in sc["nodes"] if x != v], edges=[e for e in es if v not in e])
    for i in range(len(es)):
        yield dict(sc, edges=es[:i] + es[i + 1:])
    if sc.get("attrs"):
        yield dict(sc, attrs=False)
    if sc.get("policy", {}).get("shuffle") != "uniform":
        yield dict(sc, policy={"shuffle": "uniform"})
        yield dict(sc, policy={"shuffle": "identity"})
