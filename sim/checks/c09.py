"""C09 — EECC returns an edge-disjoint edge clique cover within the size bound.

EECC under scheduled tie-breaks on seeded graphs with scheduler-chosen labels, edge insertion order and
orientation; aborts at arbitrary decisions followed by a fresh object.  Oracle: exact cover.
"""
from itertools import combinations

import gcmpy.covers.eecc as _eecc_module
from gcmpy.covers.eecc import EECC

from .. import setseam, interesting
from ..engine import describe_exc

setseam.install(_eecc_module)       # `set(...)` in eecc.py now builds sets whose iteration order the scheduler controls

ID = "C09"
RUNS = {"quick": 40000, "thorough": 60000, "thorough_s": 300}
CHUNK = 100
RUN_TIMEOUT = 1200.0        # CPU seconds; the thorough-tier scale runs (cliques of up to 2300 vertices) need ~140 s
RULE = ("seeded simple graphs without isolated vertices: clustered graphs (unions of 3..12 mostly edge-disjoint cliques of 2-5 "
        "vertices, some overlapping on an edge or vertex, optionally a rook's-graph block; up to ~40 vertices), and 2..10 "
        "vertices (thorough ..14) G(n,p) at several densities, "
        "planted overlapping cliques (cliques sharing an edge / a vertex, chains of triangles), complete graphs, arbitrary "
        "non-contiguous integer labels, scheduler-chosen edge insertion order and orientation, built by add_edge or "
        "add_edges_from, the size bound set after all edges, before any edge or in the middle of the build; m0 in 2..6 (below, at, above the clique number); tie-break schedules uniform/first/last/"
        "sticky/mix; the iteration order of the library's hash sets (unspecified by the language) natural / reversed / rotated / "
        "shuffled by the scheduler; aborts at a chosen decision then a fresh object; non-trivial = graph has >= 2 edges; distinct = "
        "distinct execution digests; run indexes 1000-2251 walk through EVERY graph with an edge on up to 7 vertices (graph atlas); thorough tier only: one clique of 1420-1500 vertices (a million edges) sharing an edge "
        "with a triangle, and one of 2050-2300 vertices (2.1-2.6 million edges), m0 = order / order+7 / 2^31, exact-cover oracle only")
ASSUMPTIONS = ["oracle computes adjacency and maximal cliques itself (own Bron-Kerbosch), independent of networkx find_cliques",
               "a result must arrive within 50*|E|+100 tie-break decisions (each round removes at least one edge)"]
REAL = ["gcmpy.covers.eecc.EECC", "gcmpy.network.network.Network", "networkx find_cliques (inside the library)",
        "CPython random.choice"]
STUB = ["entropy source (decision stream)"]


def gen_graph(prng, big):
    kind = prng.choice(("gnp", "gnp", "gnp", "planted", "planted", "chain", "complete", "clustered", "clustered"))
    nmax = 14 if big else 10
    edges = set()
    if kind == "clustered":
        # what the algorithm is meant for: a union of many (mostly edge-disjoint) small cliques - as produced by the
        # GCM generators - plus a few cliques overlapping an existing one on an edge or a vertex; sparse, so cheap
        n = 0
        groups = []
        for _ in range(prng.randrange(3, 13 if not big else 18)):
            k = prng.choice((2, 3, 3, 3, 4, 4, 5))
            share = 0
            if groups and prng.random() < 0.35:
                share = prng.choice((1, 1, 2))
            base = prng.sample(prng.choice(groups), share) if share else []
            q = list(base)
            while len(q) < k:
                q.append(n)
                n += 1
            groups.append(q)
            edges.update(combinations(sorted(q), 2))
        if prng.random() < 0.5:       # grid-like arrangement: rows and columns of a rook's graph are edge-disjoint cliques
            a = prng.choice((2, 3, 3, 4))
            off = n
            for i in range(a):
                edges.update(combinations([off + i * a + j for j in range(a)], 2))
                edges.update(combinations([off + j * a + i for j in range(a)], 2))
            n += a * a
    elif kind == "gnp":
        n = prng.randrange(2, nmax + 1)
        p = prng.choice((0.3, 0.5, 0.7, 0.9) if n <= 8 else (0.3, 0.5, 0.6))
        for i in range(n):
            for j in range(i + 1, n):
                if prng.random() < p:
                    edges.add((i, j))
    elif kind == "planted":
        n = prng.randrange(4, nmax + 1)
        for _ in range(prng.randrange(2, 5)):
            k = prng.randrange(2, min(6, n) + 1)
            q = prng.sample(range(n), k)
            for a, b in combinations(sorted(q), 2):
                edges.add((a, b))
        for _ in range(prng.randrange(0, 4)):
            a, b = sorted(prng.sample(range(n), 2))
            edges.add((a, b))
    elif kind == "chain":
        n = prng.randrange(3, nmax + 1)
        for i in range(n - 2):
            edges.update({(i, i + 1), (i + 1, i + 2)})
            if prng.random() < 0.8:
                edges.add((i, i + 2))
    else:
        n = prng.randrange(2, 8 if not big else 9)
        edges = set(combinations(range(n), 2))
    if not edges:
        edges = {(0, 1)}
    used = sorted({v for e in edges for v in e})
    labels = dict(zip(used, sorted(prng.sample(range(0, max(60, 3 * len(used))), len(used))) if prng.random() < 0.6 else used))
    if prng.random() < 0.4:
        vals = list(labels.values())
        prng.shuffle(vals)
        labels = dict(zip(used, vals))
    r = prng.random()
    if r < 0.05:
        off = prng.choice((250, 995, 2 ** 31 - 3, 2 ** 63 + 5))      # label width changes, beyond the small-int cache / C long
        labels = {k: v + off for k, v in labels.items()}
    elif r < 0.08:
        labels = {k: -v - 1 for k, v in labels.items()}              # negative labels
    elif r < 0.13:
        ks = list(labels)
        labels = dict(zip(ks, interesting.hash_twins(prng, [labels[k] for k in ks])))      # two vertices with equal hashes
    es = [[labels[a], labels[b]] for a, b in edges]
    es.sort()
    prng.shuffle(es)
    es = [e if prng.random() < 0.5 else e[::-1] for e in es]
    return es


def generate(prng, tier, index):
    if tier == "thorough" and index == 0:
        # scale (thorough tier only, ~1 minute): one clique of ~1.5e3 vertices (a million edges) sharing the edge (0, 1) with
        # a triangle - clique scores are k / C(order, 2), so anything that rounds, caps or compares them with a
        # tolerance only shows when C(order, 2) is of the order of 1e6
        n = prng.choice((1420, 1450, 1500))
        return {"variant": "clean", "scale": n, "edges": None, "m0": prng.choice((n, n + 7, 2 ** 31)), "policy": {},
                "build": "add_edges_from", "set_order": "natural"}
    if tier == "thorough" and index == 1:
        # the same again one size class up (2.1-2.6 million edges, ~2 minutes): the previous scale run was answered by a
        # threshold just above it.  Thresholds beyond THIS size are out of reach of the technique at this budget (DESIGN 12.1).
        n = prng.choice((2050, 2150, 2300))
        return {"variant": "clean", "scale": n, "edges": None, "m0": prng.choice((n, n + 7, 2 ** 31)), "policy": {},
                "build": "add_edges_from", "set_order": "natural"}
    big = tier == "thorough"
    variant = "faults" if index % 5 == 4 else "clean"
    at = interesting.atlas_graph(index - interesting.ATLAS_FROM)
    if at is not None:
        # catalogue completeness: this block of run indexes walks through EVERY graph with an edge on up to 7 vertices
        # (isolated vertices dropped: the cover is defined on edges), under scheduler-chosen labels, order, m0 and tie-breaks
        nv, es0 = at
        used = sorted({v for e in es0 for v in e})
        lab = dict(zip(used, prng.sample(range(0, 40), len(used))))
        es = [[lab[a], lab[b]] if prng.random() < 0.5 else [lab[b], lab[a]] for a, b in es0]
        prng.shuffle(es)
        graph = es
    else:
        graph = gen_graph(prng, big)
    sc = {"variant": variant, "edges": graph,
          "m0": prng.choice((2, 2, 3, 3, 4, 5, 6)) if prng.random() > 0.04 else prng.choice((7, 8, 9, 16, 100, 2 ** 31)),
          "policy": prng.choice(({}, {"int": "min"}, {"int": "max"}, {"int": "sticky"}, {"int": "mix", "p": 0.5})),
          "build": prng.choice(("add_edge", "add_edges_from")),
          # iteration order of the library's hash sets: unspecified by the language, so the scheduler may choose it
          "set_order": prng.choice(("natural", "natural", "reversed", "rotated", "shuffled", "shuffled"))}
    if variant == "faults":
        sc["abort_at"] = prng.choice((0, 0, 0, 1, 1, 2, 3))
    sc["m0_at"] = prng.choice(("last", "last", "first", "middle"))       # when set_max_clique_size is called during the build
    return sc


def build(sc):
    """The call ORDER is part of the scenario: the size bound is set after all edges (the documented order), before any
    edge, or in the middle of the build."""
    g = EECC()
    es = [tuple(e) for e in sc["edges"]]
    at = {"first": 0, "middle": len(es) // 2}.get(sc.get("m0_at"), len(es))
    for part, last in ((es[:at], False), (es[at:], True)):
        if part:
            if sc.get("build") == "add_edges_from":
                g.add_edges_from(part)
            else:
                for e in part:
                    g.add_edge(e)
        if not last:
            g.set_max_clique_size(sc["m0"])
    return g


def maximal_cliques(adj):
    out = []

    def bk(R, P, X):
        if not P and not X:
            out.append(frozenset(R))
            return
        for v in sorted(P):
            bk(R | {v}, P & adj[v], X & adj[v])
            P = P - {v}
            X = X | {v}

    bk(set(), set(adj), set())
    return out


def verify(sc, ctx, cover, g, tag=""):
    P = "C09"
    m0 = sc["m0"]
    E = {frozenset(e) for e in sc["edges"]}
    adj = {}
    for e in sc["edges"]:
        adj.setdefault(e[0], set()).add(e[1])
        adj.setdefault(e[1], set()).add(e[0])
    if not isinstance(cover, list):
        ctx.violate(f"{P}.raised", f"get_EECC returned {type(cover).__name__}, not a list{tag}")
        return
    covered = {}
    ctx.check(f"{P}.size")
    ctx.check(f"{P}.clique")
    for c in cover:
        try:
            vs = list(c)
        except TypeError:
            ctx.violate(f"{P}.size", f"cover element {c!r} is not a vertex set{tag}")
            return
        if not (2 <= len(vs) <= m0) or len(set(vs)) != len(vs):
            ctx.violate(f"{P}.size", f"cover element {vs} has {len(vs)} vertices; allowed 2..{m0} distinct{tag}")
            return
        for a, b in combinations(vs, 2):
            fs = frozenset((a, b))
            if fs not in E:
                ctx.violate(f"{P}.clique", f"cover element {vs} is not a clique of the input: {sorted(fs)} is no edge{tag}")
                return
            covered[fs] = covered.get(fs, 0) + 1
    ctx.check(f"{P}.exact")
    twice = sorted(sorted(fs) for fs, k in covered.items() if k > 1)
    missing = sorted(sorted(fs) for fs in E if fs not in covered)
    if twice:
        ctx.violate(f"{P}.exact", f"edge {twice[0]} is covered {covered[frozenset(twice[0])]} times (m0={m0}); "
                                  f"{len(twice)} edge(s) covered more than once{tag}")
    elif missing:
        ctx.violate(f"{P}.exact", f"edge {missing[0]} is not covered (m0={m0}); {len(missing)} uncovered{tag}")
    ctx.expect(f"{P}.drained", not g.has_edges(), f"working graph still has edges after get_EECC{tag}")
    # intact maximal cliques
    ctx.check(f"{P}.intact")
    mc = maximal_cliques(adj)
    got = {frozenset(c) for c in cover}
    for q in mc:
        if 2 <= len(q) <= m0 and all(len(q & o) < 2 for o in mc if o is not q):
            ctx.probe("isolated_maximal_clique")
            if q not in got:
                ctx.violate(f"{P}.intact", f"maximal clique {sorted(q)} (<= m0={m0}, shares no edge with another maximal "
                                           f"clique) is not returned intact{tag}")
                break
    if any(len(q) > m0 for q in mc):
        ctx.probe("clique_larger_than_m0")
        big = [q for q in mc if len(q) > m0]
        if any(len(a & b) >= 2 for a, b in combinations(big, 2)):
            ctx.probe("overlapping_large_cliques")


def execute_scale(sc, ctx):
    """K_n on 0..n-1 plus vertex n adjacent to 0 and 1.  Oracle: exact cover (own adjacency), nothing else."""
    P = "C09"
    n, m0 = sc["scale"], sc["m0"]
    edges = [(a, b) for a in range(n) for b in range(a + 1, n)] + [(0, n), (1, n)]
    g = EECC()
    g.add_edges_from(edges)
    g.set_max_clique_size(m0)
    src = ctx.source("tie", sc.get("policy"))
    st, cover = ctx.call(src, g.get_EECC, budget=None, label="get_EECC[scale]")
    if st != "ok":
        ctx.violate(f"{P}.raised", f"get_EECC on K_{n} plus a triangle on one of its edges (m0={m0}): {st} {describe_exc(cover) if st == 'raised' else ''}")
        return
    ctx.probe("scale_run_edges", len(edges))
    ctx.check(f"{P}.clique"); ctx.check(f"{P}.size"); ctx.check(f"{P}.exact")
    adj = {}
    for a, b in edges:
        adj.setdefault(a, set()).add(b)
        adj.setdefault(b, set()).add(a)
    seen = set()
    for c in cover:
        vs = list(c)
        if len(set(vs)) != len(vs) or not 2 <= len(vs) <= m0:
            ctx.violate(f"{P}.size", f"cover element with {len(vs)} entries ({len(set(vs))} distinct), m0={m0}")
            return
        for i, a in enumerate(vs):
            na = adj.get(a, ())
            for b in vs[i + 1:]:
                if b not in na:
                    ctx.violate(f"{P}.clique", f"cover element of {len(vs)} vertices contains the non-adjacent pair {(a, b)}")
                    return
                e = (a, b) if a < b else (b, a)
                if e in seen:
                    ctx.violate(f"{P}.exact", f"edge {e} of K_{n} + triangle is in two cover elements (element sizes "
                                             f"{sorted((len(x) for x in cover), reverse=True)[:5]})")
                    return
                seen.add(e)
    if len(seen) != len(edges):
        ctx.violate(f"{P}.exact", f"{len(edges) - len(seen)} of {len(edges)} edges are in no cover element")
    ctx.nedges = len(edges)
    ctx.result(n, m0, sorted((len(x) for x in cover), reverse=True)[:8])


def execute(sc, ctx):
    if sc.get("scale"):
        return execute_scale(sc, ctx)
    P = "C09"
    nE = len({frozenset(e) for e in sc["edges"]})
    budget = 50 * nE + 100
    src = ctx.source("tie", sc.get("policy"))
    tag = ""
    if sc["variant"] == "faults":
        try:
            g0 = build(sc)
        except Exception as e:
            ctx.violate(f"{P}.raised", f"building the graph raised {describe_exc(e)}")
            return
        st, _ = ctx.call(src, g0.get_EECC, abort_at=sc.get("abort_at", 0), budget=budget, label="get_EECC")
        if st == "abort":
            tag = " (fresh object after an aborted cover)"
            ctx.probe("fresh_after_abort")
    try:
        g = build(sc)
    except Exception as e:
        ctx.violate(f"{P}.raised", f"building the graph raised {describe_exc(e)}")
        return
    mode = sc.get("set_order", "natural")
    osrc = ctx.source("setorder", None)
    before_it = setseam.ITERATIONS
    with setseam.ordering(mode, osrc):
        st, cover = ctx.call(src, g.get_EECC, budget=budget, label=f"get_EECC[sets {mode}]")
    if setseam.ITERATIONS > before_it and mode != "natural":
        ctx.probe("set_iterations_reordered", setseam.ITERATIONS - before_it)
        ctx.fault("set_iteration_order")
    tag = tag + (f" (hash sets iterated in {mode} order)" if mode != "natural" else "")
    if st == "budget":
        ctx.violate(f"{P}.raised", f"no result within {budget} tie-break decisions for {nE} edges (m0={sc['m0']}){tag}")
        return
    if st != "ok":
        ctx.violate(f"{P}.raised", f"get_EECC: {st} {describe_exc(cover) if st == 'raised' else ''} (m0={sc['m0']}){tag}")
        return
    verify(sc, ctx, cover, g, tag)
    ctx.result(sorted(sorted(c) for c in cover) if isinstance(cover, list) else repr(cover))
    ctx.nedges = nE
    ctx.probe("tie_break_decisions", len(src.log))
    ctx.probe("tie_breaks_among_2_or_more", src.wide)


def nontrivial(sc, ctx):
    return getattr(ctx, "nedges", 0) >= 2


def shrink(sc):
    if sc.get("scale"):
        return
    if sc["variant"] == "faults":
        yield dict(sc, variant="clean")
    es = sc["edges"]
    n = len(es)
    if n > 3:
        yield dict(sc, edges=es[: n // 2])
        yield dict(sc, edges=es[n // 2:])
    verts = sorted({v for e in es for v in e})
    for v in verts:
        rest = [e for e in es if v not in e]
        if rest:
            yield dict(sc, edges=rest)
    for i in range(n):
        if n > 1:
            yield dict(sc, edges=es[:i] + es[i + 1:])
    if sc.get("policy"):
        yield dict(sc, policy={})
    if sc.get("set_order", "natural") not in ("natural", "reversed"):
        yield dict(sc, set_order="reversed")
    # canonical labels / order
    canon = sorted(sorted(e) for e in es)
    if canon != es:
        yield dict(sc, edges=canon)
    relabel = {v: i for i, v in enumerate(verts)}
    if any(relabel[v] != v for v in verts):
        yield dict(sc, edges=[[relabel[a], relabel[b]] for a, b in es])
