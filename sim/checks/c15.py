"""C15 — automated motif equation equals the exact bond-percolation expectation, history independent.

One shared AutomatedEquation object; a seeded history of evaluations (motif, focal vertex, phi, u) that
revisits and interleaves distinctly named motifs with float / exact rational / polynomial operands;
operand faults and a missing vertex attribute injected mid-evaluation, evaluator reused afterwards.
Every value is compared with a history-free brute-force expectation.
"""
from fractions import Fraction

import networkx as nx

from gcmpy.message_passing.equations.automated_equation import AutomatedEquation

from ..engine import describe_exc
from ..models.percolation import expectation
from ..operands import Exact, Poly, OpCounter
from ..simrandom import SimFault

ID = "C15"
RUNS = {"quick": 640, "thorough": 20000, "thorough_s": 400}
CHUNK = 10
RUN_TIMEOUT = 600.0
GRID = 10 ** 6
RULE = ("seeded pools of 3-8 distinctly named connected motifs (random connected graphs on 2..6 vertices with <= 9 edges "
        "(thorough <= 11), K2..K5, C3..C7, diamond, trees, stars; arbitrary integer labels; names with digits and dashes) "
        "and histories of 10-40 evaluations (motif, focal, operand kind, heterogeneous u) on ONE evaluator that revisit "
        "and interleave motifs; operand kinds float / exact rationals on a 1e6 grid / polynomial symbols; faults: operand "
        "raising at the k-th arithmetic operation, the motif graph's neighbors() raising at the k-th call (lands inside "
        "the structural cache filling), a vertex without its u value; non-trivial = history has >= 2 "
        "evaluations of which one revisits a (motif, focal) pair; distinct = distinct execution digests")
ASSUMPTIONS = ["reference = brute force over all 2^|E| edge subsets, organised as integer counts (pure function of motif and focal)",
               "Exact evaluations establish the polynomial identity with probability >= 1 - deg/1e6 each (Schwartz-Zippel); "
               "Poly evaluations establish it outright for the (motif, focal) pairs they visit",
               "float evaluations compared to 1e-9 (absolute + relative)"]
REAL = ["gcmpy.message_passing.equations.automated_equation.AutomatedEquation (shared object, real caches)", "networkx"]
STUB = ["numeric operands (Exact / Poly / faulting wrappers)", "no RNG is consumed by this code path"]

class FaultyGraph(nx.Graph):
    """Duck-typed graph operand: neighbors() fails at the k-th call (counter shared through the graph attribute
    dict, which nx copies by reference into every copy), so a fault can land INSIDE the structural cache filling."""

    def neighbors(self, n):
        c = self.graph.get("_fault")
        if c is not None:
            c.tick()
        return super().neighbors(n)


NAMES = ["3-1", "m-0", "7", "2-clique", "0-0", "12", "a-1-2", "1", "1-2", "c4", "K-5", "0", "", "-", "--1", "1-", "[0, 1]", "\u00e9-1", " 1",
         "1 ", "None", "0x10", "1e3"]


def gen_motif(prng, max_edges):
    kind = prng.choice(("random", "random", "random", "clique", "cycle", "diamond", "tree", "star"))
    if kind == "clique":
        k = prng.randrange(2, 6)
        es = [(i, j) for i in range(k) for j in range(i + 1, k)]
    elif kind == "cycle":
        k = prng.randrange(3, 8)
        es = [(i, (i + 1) % k) for i in range(k)]
    elif kind == "diamond":
        es = [(0, 1), (1, 2), (2, 3), (0, 3), (0, 2)]
    elif kind == "tree":
        k = prng.randrange(2, 7)
        es = [(prng.randrange(i), i) for i in range(1, k)]
    elif kind == "star":
        k = prng.randrange(2, 7)
        es = [(0, i) for i in range(1, k)]
    else:
        k = prng.randrange(2, 7)
        es = [(prng.randrange(i), i) for i in range(1, k)]      # spanning tree => connected
        extra = [(i, j) for i in range(k) for j in range(i + 1, k) if (i, j) not in es]
        prng.shuffle(extra)
        es += extra[: prng.randrange(0, max(1, max_edges - len(es) + 1))]
    es = es[:max_edges] if kind == "random" else es
    verts = sorted({v for e in es for v in e})
    labels = prng.sample(range(-3, 40), len(verts)) if prng.random() < 0.6 else verts
    r = prng.random()
    if r < 0.08:
        base = prng.choice((250, 995, 2 ** 31 - 3, 2 ** 63 + 5))
        labels = [base + x for x in prng.sample(range(0, 12), len(verts))]          # width changes (9 -> 10, 999 -> 1000), big ints
    elif r < 0.12:
        labels = prng.sample([-12, -11, -2, -1, 0, 1, 2, 10, 11, 12, 21, 100, 101, 110, 111, 112], len(verts))
    m = dict(zip(verts, labels))
    out = [[m[a], m[b]] for a, b in es]
    prng.shuffle(out)
    return [e if prng.random() < 0.5 else e[::-1] for e in out]


def gen_operands(prng, verts, kind):
    if kind == "float":
        return {"kind": kind, "phi": round(prng.random(), 6), "u": [[v, round(prng.random(), 6)] for v in verts]}
    if kind == "exact":
        return {"kind": kind, "phi": [prng.randrange(0, GRID + 1), GRID],
                "u": [[v, [prng.randrange(0, GRID + 1), GRID]] for v in verts]}
    if kind == "exact_equal_u":
        x = [prng.randrange(0, GRID + 1), GRID]
        return {"kind": "exact", "phi": [prng.randrange(0, GRID + 1), GRID], "u": [[v, x] for v in verts]}
    if kind == "edge":
        return {"kind": "exact", "phi": prng.choice(([0, 1], [1, 1], [1, 2], [1, 10 ** 30], [10 ** 30 - 1, 10 ** 30])),
                "u": [[v, prng.choice(([0, 1], [1, 1], [1, 3]))] for v in verts]}
    return {"kind": "poly"}


def generate(prng, tier, index):
    big = tier == "thorough"
    max_edges = 11 if big and prng.random() < 0.3 else (9 if prng.random() < 0.3 else 7)
    npool = prng.randrange(3, 9)
    names = prng.sample(NAMES, npool)
    motifs = [{"name": names[i], "edges": gen_motif(prng, max_edges)} for i in range(npool)]
    variant = "faults" if index % 4 == 3 else "clean"
    evals = []
    n_ev = prng.randrange(10, 41)
    kinds = prng.choice((("float", "exact"), ("exact", "exact", "poly"), ("exact", "edge", "exact_equal_u", "float"),
                         ("poly", "exact"), ("float", "exact", "poly", "edge")))
    for _ in range(n_ev):
        if evals and prng.random() < 0.35:
            prev = prng.choice(evals)
            mi, focal = prev["m"], prev["focal"]
        else:
            mi = prng.randrange(npool)
            verts = sorted({v for e in motifs[mi]["edges"] for v in e})
            focal = prng.choice(verts)
        verts = sorted({v for e in motifs[mi]["edges"] for v in e})
        ev = {"m": mi, "focal": focal}
        ev.update(gen_operands(prng, verts, prng.choice(kinds)))
        evals.append(ev)
    sc = {"variant": variant, "motifs": motifs, "evals": evals, "faults": []}
    if variant == "faults":
        for _ in range(prng.randrange(1, 3)):
            at = prng.randrange(len(evals))
            r = prng.random()
            if r < 0.45:
                sc["faults"].append({"kind": "operand_raise", "eval": at, "at": prng.randrange(0, 40)})
            elif r < 0.8:
                sc["faults"].append({"kind": "structure_raise", "eval": at, "at": prng.randrange(0, 25)})
            else:
                sc["faults"].append({"kind": "missing_attr", "eval": at, "which": prng.randrange(0, 6)})
    return sc


def operands(ev, verts, counter=None):
    k = ev["kind"]
    if k == "float":
        return float(ev["phi"]), {v: float(x) for v, x in ev["u"]}
    if k == "exact":
        return Exact(Fraction(*ev["phi"]), counter), {v: Exact(Fraction(*x), counter) for v, x in ev["u"]}
    return Poly.var("p"), {v: Poly.var(f"u{v}".replace("-", "m")) for v in verts}


def reference(edges, focal, ev, verts):
    k = ev["kind"]
    if k == "float":
        phi, u = operands(ev, verts)
        return expectation(edges, focal, phi, u, one=1.0)
    if k == "exact":
        return expectation(edges, focal, Fraction(*ev["phi"]), {v: Fraction(*x) for v, x in ev["u"]}, one=Fraction(1))
    phi, u = operands(ev, verts)
    return expectation(edges, focal, phi, u, one=Poly.const(1))


def same(got, ref, kind):
    if kind == "float":
        try:
            g = float(got)
        except Exception:
            return False
        return abs(g - ref) <= 1e-9 * (1.0 + abs(ref))
    if kind == "exact":
        if isinstance(got, Exact):
            return got.v == ref
        if isinstance(got, (int, float)):
            return Fraction(got) == ref
        return False
    if isinstance(got, Poly):
        return got == ref
    if isinstance(got, (int, float)):
        return Poly.const(Fraction(got)) == ref
    return False


def show(x):
    return repr(x)[:160]


def execute(sc, ctx):
    P = "C15"
    AE = AutomatedEquation()
    src = ctx.source("none")
    seen = set()
    revisits = 0
    faulted = False
    faults = {}
    for f in sc.get("faults", []):
        faults.setdefault(f["eval"], f)
    for k, ev in enumerate(sc["evals"]):
        m = sc["motifs"][ev["m"]]
        edges = [tuple(e) for e in m["edges"]]
        verts = sorted({v for e in edges for v in e})
        focal = ev["focal"]
        if focal not in verts:
            focal = verts[0]
        if (ev["m"], focal) in seen:
            revisits += 1
        seen.add((ev["m"], focal))
        f = faults.get(k)
        counter = None
        if f and f["kind"] == "operand_raise" and ev["kind"] == "exact":
            counter = OpCounter(fail_at=f["at"])
        phi, u = operands(ev, verts, counter)
        if f and f["kind"] == "structure_raise":
            H = FaultyGraph(name=m["name"])
            H.add_edges_from(edges)
            H.graph["_fault"] = OpCounter(fail_at=f["at"])
        else:
            H = nx.Graph(name=m["name"])
            H.add_edges_from(edges)
        uu = dict(u)
        dropped = None
        if f and f["kind"] == "missing_attr":
            others = [v for v in verts if v != focal]
            if others:
                dropped = others[f["which"] % len(others)]
                del uu[dropped]
        nx.set_node_attributes(H, uu, "u")
        st, val = ctx.call(src, AE.automated_equation, H, phi, focal, label="automated_equation")
        tag = f" (evaluation #{k} of motif {m['name']!r} focal {focal}, {ev['kind']} operands" + \
              (", after an injected fault on this evaluator)" if faulted else ")")
        if st == "fault":
            ctx.fault(f["kind"] if f else "operand_raise")
            faulted = True
            continue
        if f and f["kind"] == "structure_raise":
            H.graph.pop("_fault", None)
        if dropped is not None:
            # the library may raise (KeyError) or not need the value; either way nothing to compare
            if st == "raised":
                ctx.fault("missing_attr")
                faulted = True
                continue
            if st == "ok":
                continue
        if st != "ok":
            ctx.violate(f"{P}.raised", f"automated_equation: {st} {describe_exc(val) if st == 'raised' else ''}{tag}")
            return
        ref = reference(edges, focal, ev, verts)
        clause = f"{P}.postfault" if faulted else (f"{P}.history" if k > 0 else f"{P}.identity")
        ctx.check(f"{P}.identity")
        if faulted:
            ctx.check(f"{P}.postfault")
        if k > 0:
            ctx.check(f"{P}.history")
        if not same(val, ref, ev["kind"]):
            # history-free re-evaluation tells identity apart from history dependence
            st2, val2 = ctx.call(src, AutomatedEquation().automated_equation, H, phi, focal, label="fresh_evaluator")
            fresh_ok = st2 == "ok" and same(val2, ref, ev["kind"])
            if not fresh_ok:
                clause = f"{P}.identity"
            ctx.violate(clause, f"value {show(val)} differs from the exact expectation {show(ref)}"
                                f"{'' if not fresh_ok else ' although a fresh evaluator returns the exact value'}{tag}")
            return
        ctx.probe(f"evaluated_{ev['kind']}")
        ctx.result(k, show(val))
    ctx.nt = len(sc["evals"]) >= 2 and revisits >= 1
    ctx.probe("revisits", revisits)


def nontrivial(sc, ctx):
    return getattr(ctx, "nt", False)


def shrink(sc):
    evs = sc["evals"]
    n = len(evs)
    if sc.get("faults"):
        yield dict(sc, faults=[])
    if n > 2:
        yield dict(sc, evals=evs[n // 2:], faults=[])
        yield dict(sc, evals=evs[: n // 2], faults=[f for f in sc.get("faults", []) if f["eval"] < n // 2])
    for i in range(n - 1, -1, -1):
        if n > 1:
            fs = []
            for f in sc.get("faults", []):
                if f["eval"] == i:
                    continue
                fs.append(dict(f, eval=f["eval"] - 1) if f["eval"] > i else f)
            yield dict(sc, evals=evs[:i] + evs[i + 1:], faults=fs)
    # simplify a motif: drop one edge if it stays connected and keeps its vertices
    for mi, m in enumerate(sc["motifs"]):
        es = m["edges"]
        for j in range(len(es)):
            rest = es[:j] + es[j + 1:]
            if not rest:
                continue
            H = nx.Graph([tuple(e) for e in rest])
            if nx.is_connected(H) and set(H.nodes()) == {v for e in es for v in e}:
                ms = list(sc["motifs"])
                ms[mi] = dict(m, edges=rest)
                yield dict(sc, motifs=ms)
