"""C15 — automated motif equation equals the exact bond-percolation expectation, history independent.

One shared AutomatedEquation object; a seeded history of evaluations (motif, focal vertex, phi, u) that
revisits and interleaves distinctly named motifs with float / exact rational / polynomial operands;
operand faults and a missing vertex attribute injected mid-evaluation, evaluator reused afterwards.
Every value is compared with a history-free brute-force expectation.
"""
from fractions import Fraction

import networkx as nx

import gcmpy.message_passing.equations.automated_equation as _ae_module
from gcmpy.message_passing.equations.automated_equation import AutomatedEquation

from .. import setseam, interesting

from ..engine import describe_exc
from ..models.percolation import expectation
from ..operands import Exact, Poly, OpCounter
from ..simrandom import SimFault

setseam.install(_ae_module)     # iteration order of the evaluator's hash sets is chosen by the scheduler

ID = "C15"
RUNS = {"quick": 640, "thorough": 20000, "thorough_s": 400}
CHUNK = 10
RUN_TIMEOUT = 600.0
GRID = 10 ** 6
RULE = ("one history per invocation evaluates EVERY connected graph on 2-6 vertices (graph atlas, 142 shapes, own names, "
        "scheduler-chosen order, 25 revisits) on one shared evaluator; run indexes 100-123 do the same for the 709 connected 7-vertex shapes "
        "with at most 13 edges (24 chunks by degree sequence, two focal vertices per shape); two vertices of a motif occasionally carry different int labels with "
        "the same hash; 20% of the histories contain a motif pair whose (vertex set, name) strings coincide under concatenation "
        "(B = A without its largest vertex x, named '<x><sep><name of A>'); otherwise: seeded pools of 3-8 distinctly named connected motifs (random connected graphs on 2..6 vertices with <= 9 edges "
        "(thorough <= 11), K2..K5, C3..C7, diamond, trees, stars; arbitrary integer labels; names with digits and dashes) "
        "and histories of 10-40 evaluations (motif, focal, operand kind, heterogeneous u) on ONE evaluator that revisit "
        "and interleave motifs; operand kinds float / exact rationals on a 1e6 grid / polynomial symbols; faults: operand "
        "raising at the k-th arithmetic operation, the motif graph's neighbors() raising at the k-th call (lands inside "
        "the structural cache filling), a vertex without its u value; every 5th run: two or three evaluations OVERLAPPING IN TIME on "
        "the shared evaluator - real threads parked at every operand operation and, in half of these runs, also at every 1st / 2nd / "
        "3rd / 7th / 19th executed LINE of library code (sys.settrace in the worker threads), the interleaving chosen by the "
        "seeded scheduler (uniform / sticky / mixed), or a nested evaluation started from inside an operand operation; non-trivial = history has >= 2 "
        "evaluations of which one revisits a (motif, focal) pair; distinct = distinct execution digests")
ASSUMPTIONS = ["reference = brute force over all 2^|E| edge subsets, organised as integer counts (pure function of motif and focal)",
               "Exact evaluations establish the polynomial identity with probability >= 1 - deg/1e6 each (Schwartz-Zippel); "
               "Poly evaluations establish it outright for the (motif, focal) pairs they visit",
               "float evaluations compared to 1e-9 (absolute + relative)"]
REAL = ["gcmpy.message_passing.equations.automated_equation.AutomatedEquation (shared object, real caches)", "networkx"]
STUB = ["numeric operands (Exact / Poly / faulting wrappers)", "no RNG is consumed by this code path"]

import os
import sys
import threading

import gcmpy as _gcmpy

_LIBDIR = os.path.dirname(os.path.abspath(_gcmpy.__file__)) + os.sep
_BATONS = {}        # thread ident -> Baton of the worker thread currently registered under it


class Baton:
    """Hand-over object of ONE worker thread."""

    def __init__(self):
        self.go = threading.Semaphore(0)
        self.back = threading.Semaphore(0)
        self.done = False
        self.result = None
        self.error = None
        self.ops = 0
        self.lines = 0
        self.stride = None      # pre-empt at every stride-th executed library line (None: operand operations only)
        self.phase = 0


class YieldPoint:
    """Counter handed to Exact operands: every arithmetic operation is a pre-emption point.  The thread that
    EXECUTES the operation parks on ITS OWN baton - not on the one of whoever created the operand: a library that
    leaks one evaluation's operands into another (e.g. through a cache) makes thread B compute with thread A's
    operand objects, and parking B on A's baton would deadlock the scheduler instead of exposing the leak."""

    fail_at = None      # OpCounter compatibility

    def __init__(self):
        self.n = 0

    def tick(self):
        self.n += 1
        b = _BATONS.get(threading.get_ident())
        if b is None:
            return              # not a scheduled worker (main thread: warm-up, references)
        b.ops += 1
        b.back.release()        # parked: tell the scheduler
        b.go.acquire()          # wait for the next grant


class WorkerStuck(Exception):
    pass


def _line_local(frame, event, arg):
    if event == "line":
        b = _BATONS.get(threading.get_ident())
        if b is not None and b.stride:
            b.lines += 1
            if b.lines % b.stride == b.phase:
                b.back.release()        # parked at an executed line of library code
                b.go.acquire()
    return _line_local


def _line_global(frame, event, arg):
    # line events only inside frames of the library under test (operands, networkx, the harness run untraced)
    if event == "call" and frame.f_code.co_filename.startswith(_LIBDIR):
        return _line_local
    return None


def run_interleaved(fns, decide, max_steps=200000, step_timeout=60.0, strides=None):
    """fns: list of callables.  Real threads, exactly one running at any time; `decide(k)` (the seeded scheduler)
    picks which of the k runnable threads gets the next step.  A step ends at the thread's next pre-emption point:
    an operand operation (YieldPoint) and, with `strides`, every stride-th executed LINE of library code
    (sys.settrace in the worker thread).  Returns (batons, context switches)."""
    batons = [Baton() for _ in fns]
    threads = []
    for k, (b, fn) in enumerate(zip(batons, fns)):
        if strides:
            b.stride, b.phase = strides[k % len(strides)]
        def body(b=b, fn=fn):
            _BATONS[threading.get_ident()] = b
            b.go.acquire()
            if b.stride:
                sys.settrace(_line_global)
            try:
                b.result = fn()
            except BaseException as e:     # reported by the caller
                b.error = e
            finally:
                sys.settrace(None)
                b.done = True
                _BATONS.pop(threading.get_ident(), None)
                b.back.release()
        t = threading.Thread(target=body, daemon=True)
        t.start()
        threads.append(t)
    switches, last, steps = 0, None, 0
    try:
        while True:
            runnable = [i for i, b in enumerate(batons) if not b.done]
            if not runnable:
                break
            i = runnable[decide(len(runnable)) if steps < max_steps else 0]
            if last is not None and i != last:
                switches += 1
            last = i
            batons[i].go.release()
            if not batons[i].back.acquire(timeout=step_timeout):
                raise WorkerStuck(f"worker {i} neither reached its next operand operation nor finished within {step_timeout:.0f}s")
            steps += 1
    finally:
        for b in batons:                    # never leave a parked thread behind
            if not b.done:
                for _ in range(1000000):
                    b.go.release()
                    if b.back.acquire(timeout=0.5) and b.done:
                        break
                    if b.done:
                        break
        for t in threads:
            t.join(timeout=5)
    return batons, switches


class NestedCall:
    """Counter handed to Exact operands of an outer evaluation: at its k-th arithmetic operation it runs ANOTHER
    evaluation on the same evaluator (re-entrancy in one thread), then lets the outer one continue."""

    def __init__(self, at, inner):
        self.n = 0
        self.at = at
        self.inner = inner
        self.inner_result = None
        self.inner_error = None
        self.fired = False
        self.fail_at = None

    def tick(self):
        if self.n == self.at and not self.fired:
            self.fired = True
            try:
                self.inner_result = self.inner()
            except Exception as e:
                self.inner_error = e
        self.n += 1


class FaultyGraph(nx.Graph):
    """Duck-typed graph operand: neighbors() fails at the k-th call (counter shared through the graph attribute
    dict, which nx copies by reference into every copy), so a fault can land INSIDE the structural cache filling."""

    def neighbors(self, n):
        c = self.graph.get("_fault")
        if c is not None:
            c.tick()
        return super().neighbors(n)


NAMES = ["3-1", "m-0", "7", "2-clique", "0-0", "12", "a-1-2", "1", "1-2", "c4", "K-5", "0", "", "-", "--1", "1-", "[0, 1]", "\u00e9-1", " 1",
         "1 ", "None", "0x10", "1e3"]


def gen_motif(prng, max_edges):
    kind = prng.choice(("random", "random", "random", "clique", "cycle", "diamond", "tree", "star"))
    if kind == "clique":
        k = prng.randrange(2, 6)
        es = [(i, j) for i in range(k) for j in range(i + 1, k)]
    elif kind == "cycle":
        k = prng.randrange(3, 8)
        es = [(i, (i + 1) % k) for i in range(k)]
    elif kind == "diamond":
        es = [(0, 1), (1, 2), (2, 3), (0, 3), (0, 2)]
    elif kind == "tree":
        k = prng.randrange(2, 7)
        es = [(prng.randrange(i), i) for i in range(1, k)]
    elif kind == "star":
        k = prng.randrange(2, 7)
        es = [(0, i) for i in range(1, k)]
    else:
        k = prng.randrange(2, 7)
        es = [(prng.randrange(i), i) for i in range(1, k)]      # spanning tree => connected
        extra = [(i, j) for i in range(k) for j in range(i + 1, k) if (i, j) not in es]
        prng.shuffle(extra)
        es += extra[: prng.randrange(0, max(1, max_edges - len(es) + 1))]
    es = es[:max_edges] if kind == "random" else es
    verts = sorted({v for e in es for v in e})
    labels = prng.sample(range(-3, 40), len(verts)) if prng.random() < 0.6 else verts
    r = prng.random()
    if r < 0.08:
        base = prng.choice((250, 995, 2 ** 31 - 3, 2 ** 63 + 5))
        labels = [base + x for x in prng.sample(range(0, 12), len(verts))]          # width changes (9 -> 10, 999 -> 1000), big ints
    elif r < 0.12:
        labels = prng.sample([-12, -11, -2, -1, 0, 1, 2, 10, 11, 12, 21, 100, 101, 110, 111, 112], len(verts))
    if prng.random() < 0.06:
        labels = interesting.hash_twins(prng, list(labels))     # two vertices of one motif with equal hashes
    m = dict(zip(verts, labels))
    out = [[m[a], m[b]] for a, b in es]
    prng.shuffle(out)
    return [e if prng.random() < 0.5 else e[::-1] for e in out]


def gen_operands(prng, verts, kind):
    if kind == "float":
        d = {"kind": kind, "phi": round(prng.random(), 6), "u": [[v, round(prng.random(), 6)] for v in verts]}
        if prng.random() < 0.2:
            d["np"] = True              # operands as numpy float64 scalars
        return d
    if kind == "exact":
        return {"kind": kind, "phi": [prng.randrange(0, GRID + 1), GRID],
                "u": [[v, [prng.randrange(0, GRID + 1), GRID]] for v in verts]}
    if kind == "exact_equal_u":
        x = [prng.randrange(0, GRID + 1), GRID]
        return {"kind": "exact", "phi": [prng.randrange(0, GRID + 1), GRID], "u": [[v, x] for v in verts]}
    if kind == "edge":
        return {"kind": "exact", "phi": prng.choice(([0, 1], [1, 1], [1, 2], [1, 10 ** 30], [10 ** 30 - 1, 10 ** 30])),
                "u": [[v, prng.choice(([0, 1], [1, 1], [1, 3]))] for v in verts]}
    return {"kind": "poly"}


def gen_overlap(prng, tier, index):
    npool = prng.randrange(2, 5)
    names = prng.sample(NAMES, npool)
    motifs = [{"name": names[i], "edges": gen_motif(prng, 7)} for i in range(npool)]
    evals = []
    for _ in range(prng.choice((2, 2, 3))):
        mi = prng.randrange(npool) if prng.random() < 0.6 or not evals else evals[0]["m"]
        verts = sorted({v for e in motifs[mi]["edges"] for v in e})
        ev = {"m": mi, "focal": prng.choice(verts)}
        ev.update(gen_operands(prng, verts, "exact"))
        evals.append(ev)
    mode = prng.choice(("threads", "lines", "lines", "nested"))
    sc = {"variant": "faults", "kind": "overlap", "mode": mode, "motifs": motifs, "evals": evals, "faults": [],
          "warm": prng.random() < 0.5, "set_order": prng.choice(("natural", "natural", "reversed", "shuffled")),
          "policy": prng.choice(({}, {"int": "sticky"}, {"int": "mix", "p": 0.3}, {"int": "mix", "p": 0.7}, {"int": "max"}))}
    if mode == "nested":
        sc["at"] = prng.randrange(0, 60)
    if mode == "lines":
        # per thread: pre-empt at every stride-th executed library line, starting at a phase
        sc["strides"] = []
        for _ in evals:
            st = prng.choice((1, 1, 2, 3, 7, 19))
            sc["strides"].append([st, prng.randrange(st)])
    return sc


def execute_overlap(sc, ctx):
    """Evaluations that OVERLAP IN TIME on one shared evaluator (the interleaving is decided by the seeded scheduler,
    or a nested call is placed at a chosen operand operation); every result must equal the brute-force expectation."""
    P = "C15"
    AE = AutomatedEquation()
    src = ctx.source("sched", sc.get("policy"))
    prepared = []
    for ev in sc["evals"]:
        m = sc["motifs"][ev["m"]]
        edges = [tuple(e) for e in m["edges"]]
        verts = sorted({v for e in edges for v in e})
        focal = ev["focal"] if ev["focal"] in verts else verts[0]
        prepared.append((m, edges, verts, focal, ev))
    if sc.get("warm"):
        # structural caches already filled by an earlier sequential evaluation (the common situation)
        for m, edges, verts, focal, ev in prepared:
            phi, u = operands(ev, verts)
            H = nx.Graph(name=m["name"]); H.add_edges_from(edges); nx.set_node_attributes(H, u, "u")
            ctx.call(src, AE.automated_equation, H, phi, focal, label="warm-up")

    def make(ev, m, edges, verts, focal, counter):
        phi, u = operands(ev, verts, counter)
        H = nx.Graph(name=m["name"]); H.add_edges_from(edges); nx.set_node_attributes(H, u, "u")
        return lambda: AE.automated_equation(H, phi, focal)

    results = []
    if sc["mode"] == "nested":
        (m0, e0, v0, f0, ev0), (m1, e1, v1, f1, ev1) = prepared[0], prepared[1]
        inner = make(ev1, m1, e1, v1, f1, None)
        nc = NestedCall(sc.get("at", 0), inner)
        outer = make(ev0, m0, e0, v0, f0, nc)
        st, val = ctx.call(src, outer, label="outer[nested]")
        if st != "ok":
            ctx.violate(f"{P}.raised", f"evaluation with a nested evaluation on the same evaluator: {st} {describe_exc(val) if st == 'raised' else ''}")
            return
        if nc.inner_error is not None:
            ctx.violate(f"{P}.raised", f"nested evaluation raised {describe_exc(nc.inner_error)}")
            return
        results.append((prepared[0], val))
        if nc.fired:
            ctx.fault("nested_call")
            results.append((prepared[1], nc.inner_result))
        where = f"with a nested evaluation of motif {m1['name']!r} started at its arithmetic operation {sc.get('at', 0)}"
    else:
        fns = []
        for (m, edges, verts, focal, ev) in prepared:
            fns.append(make(ev, m, edges, verts, focal, YieldPoint()))
        jobs = fns
        start = len(src.log)
        src.begin_op(budget=None)
        try:
            batons, switches = run_interleaved(fns, lambda k: src.next_int(k, "sched") if k > 1 else 0,
                                               strides=[tuple(x) for x in sc["strides"]] if sc["mode"] == "lines" else None)
        except WorkerStuck as e:
            ctx.violate(f"{P}.raised", f"interleaved evaluations on one evaluator: {e}")
            return
        ctx.event("interleaved", src.log[start:])
        ctx.operations += len(fns)
        ctx.probe("context_switches", switches)
        if switches:
            ctx.fault("interleaved_evaluations")
        if sc["mode"] == "lines":
            ctx.probe("line_preemption_points", sum(b.lines for b in batons))
            if switches:
                ctx.fault("interleaved_at_lines")
        for b, pr in zip(batons, prepared):
            if b.error is not None:
                ctx.violate(f"{P}.raised", f"evaluation interleaved with another on the same evaluator raised {describe_exc(b.error)}")
                return
            results.append((pr, b.result))
        where = f"interleaved with {len(jobs) - 1} other evaluation(s) on the same evaluator ({switches} context switches at operand operations" + (" and executed library lines" if sc["mode"] == "lines" else "") + ")"
    for (m, edges, verts, focal, ev), val in results:
        ctx.check(f"{P}.interleaved")
        ref = reference(edges, focal, ev, verts)
        if not same(val, ref, ev["kind"]):
            ctx.violate(f"{P}.interleaved", f"value {show(val)} of motif {m['name']!r} focal {focal} differs from the exact expectation "
                                            f"{show(ref)} when evaluated {where}")
            return
        ctx.result(m["name"], focal, show(val))
    ctx.nt = True


ATLAS_AT = 3


def gen_atlas(prng, tier):
    """Catalogue completeness: EVERY connected graph on 2..6 vertices (143 shapes, networkx graph atlas), each under its own
    name, evaluated on ONE shared evaluator in a scheduler-chosen order with some revisits - whatever two small shapes an
    implementation might confuse (a cache keyed by an incomplete invariant, ...), both are in this history."""
    shapes = [g for g in nx.graph_atlas_g() if 2 <= g.number_of_nodes() <= 6 and nx.is_connected(g)]
    motifs = []
    for i, g in enumerate(shapes):
        vs = list(g.nodes())
        labels = prng.sample(range(0, 60), len(vs))
        mp = dict(zip(vs, labels))
        es = [[mp[a], mp[b]] if prng.random() < 0.5 else [mp[b], mp[a]] for a, b in g.edges()]
        prng.shuffle(es)
        motifs.append({"name": f"atlas-{i}", "edges": es})
    order = list(range(len(motifs)))
    prng.shuffle(order)
    order += prng.sample(order, 25)                  # revisits
    evals = []
    for mi in order:
        verts = sorted({v for e in motifs[mi]["edges"] for v in e})
        ev = {"m": mi, "focal": prng.choice(verts)}
        ev.update(gen_operands(prng, verts, "exact" if len(motifs[mi]["edges"]) <= 9 else "float"))
        evals.append(ev)
    return {"variant": "clean", "motifs": motifs, "evals": evals, "faults": [], "set_order": "natural", "atlas": True}


ATLAS7_FROM, ATLAS7_CHUNKS, ATLAS7_MAX_EDGES = 100, 24, 13


def gen_atlas7(prng, j):
    """The same one size up, as far as the budget reaches: the 709 of the 853 connected graphs on SEVEN vertices that have at most 13 edges,
    sorted by degree sequence and cut into 24 consecutive chunks (shapes an incomplete invariant is most likely to confuse
    share their degree sequence, so they stay on one evaluator); run index ATLAS7_FROM + j evaluates chunk j, every shape
    at TWO focal vertices of different degree where it has them."""
    shapes = [g for g in nx.graph_atlas_g() if g.number_of_nodes() == 7 and g.number_of_edges() <= ATLAS7_MAX_EDGES and nx.is_connected(g)]
    shapes.sort(key=lambda g: (sorted(d for _, d in g.degree()), g.number_of_edges()))
    per = -(-len(shapes) // ATLAS7_CHUNKS)
    mine = shapes[j * per:(j + 1) * per]
    motifs, evals = [], []
    for i, g in enumerate(mine):
        vs = list(g.nodes())
        mp = dict(zip(vs, prng.sample(range(0, 60), len(vs))))
        es = [[mp[a], mp[b]] if prng.random() < 0.5 else [mp[b], mp[a]] for a, b in g.edges()]
        prng.shuffle(es)
        motifs.append({"name": f"atlas7-{j}-{i}", "edges": es})
        by_deg = {}
        for v, d in g.degree():
            by_deg.setdefault(d, []).append(mp[v])
        degs = sorted(by_deg)
        focals = [prng.choice(by_deg[degs[-1]])] + ([prng.choice(by_deg[degs[0]])] if len(degs) > 1 else [])
        for fv in focals:
            verts = sorted(mp.values())
            ev = {"m": i, "focal": fv}
            ev.update(gen_operands(prng, verts, "exact" if len(es) <= 9 else "float"))
            evals.append(ev)
    prng.shuffle(evals)
    return {"variant": "clean", "motifs": motifs, "evals": evals, "faults": [], "set_order": "natural", "atlas": True}


def generate(prng, tier, index):
    if index == ATLAS_AT:
        return gen_atlas(prng, tier)
    if ATLAS7_FROM <= index < ATLAS7_FROM + ATLAS7_CHUNKS:
        return gen_atlas7(prng, index - ATLAS7_FROM)
    if index % 5 == 4:
        return gen_overlap(prng, tier, index)
    big = tier == "thorough"
    max_edges = 11 if big and prng.random() < 0.3 else (9 if prng.random() < 0.3 else 7)
    npool = prng.randrange(3, 9)
    names = prng.sample(NAMES, npool)
    motifs = [{"name": names[i], "edges": gen_motif(prng, max_edges)} for i in range(npool)]
    variant = "faults" if index % 4 == 3 else "clean"
    evals = []
    twin_focal = None
    if prng.random() < 0.2:
        # two motifs whose (vertex set, name) pairs become the SAME string under naive concatenation: motif B is motif A
        # without its largest vertex x, and B is called "<x><sep><name of A>" - a key made by joining labels and name with
        # <sep> cannot tell A's full component from B's
        A = motifs[0]
        vs = sorted({v for e in A["edges"] for v in e})
        x = vs[-1]
        rest = [e for e in A["edges"] if x not in e]
        if all(isinstance(v, int) and v >= 0 for v in vs) and rest and nx.is_connected(nx.Graph([tuple(e) for e in rest])) \
                and {v for e in rest for v in e} == set(vs[:-1]):
            sep = prng.choice(("_", "_", "-", " ", "", ",", ", ", ":", "|", "."))
            motifs[1 % npool if npool > 1 else 0] = {"name": f"{x}{sep}{A['name']}", "edges": [list(e) for e in rest]}
            if npool > 1:
                twin_focal = prng.choice(vs[:-1])
    n_ev = prng.randrange(10, 41)
    kinds = prng.choice((("float", "exact"), ("exact", "exact", "poly"), ("exact", "edge", "exact_equal_u", "float"),
                         ("poly", "exact"), ("float", "exact", "poly", "edge")))
    if twin_focal is not None:
        # both look-alikes at one common root, in scheduler-chosen order, before the rest of the history
        for mi in prng.sample((0, 1), 2):
            verts = sorted({v for e in motifs[mi]["edges"] for v in e})
            ev = {"m": mi, "focal": twin_focal}
            ev.update(gen_operands(prng, verts, "exact"))
            evals.append(ev)
    for _ in range(n_ev):
        if evals and prng.random() < 0.35:
            prev = prng.choice(evals)
            mi, focal = prev["m"], prev["focal"]
        else:
            mi = prng.randrange(npool)
            verts = sorted({v for e in motifs[mi]["edges"] for v in e})
            focal = prng.choice(verts)
        verts = sorted({v for e in motifs[mi]["edges"] for v in e})
        ev = {"m": mi, "focal": focal}
        ev.update(gen_operands(prng, verts, prng.choice(kinds)))
        evals.append(ev)
    sc = {"variant": variant, "motifs": motifs, "evals": evals, "faults": [],
          "set_order": prng.choice(("natural", "natural", "reversed", "rotated", "shuffled"))}
    if variant == "faults":
        for _ in range(prng.randrange(1, 3)):
            at = prng.randrange(len(evals))
            r = prng.random()
            if r < 0.45:
                sc["faults"].append({"kind": "operand_raise", "eval": at, "at": prng.randrange(0, 40)})
            elif r < 0.65:
                sc["faults"].append({"kind": "structure_raise", "eval": at, "at": prng.randrange(0, 25)})
            elif r < 0.85:
                sc["faults"].append({"kind": "line_abort", "eval": at, "at": prng.choice((prng.randrange(0, 60), prng.randrange(0, 3000)))})
            else:
                sc["faults"].append({"kind": "missing_attr", "eval": at, "which": prng.randrange(0, 6)})
    return sc


def operands(ev, verts, counter=None):
    k = ev["kind"]
    if k == "float" and ev.get("np"):
        import numpy as np
        return np.float64(ev["phi"]), {v: np.float64(x) for v, x in ev["u"]}
    if k == "float":
        return float(ev["phi"]), {v: float(x) for v, x in ev["u"]}
    if k == "exact":
        return Exact(Fraction(*ev["phi"]), counter), {v: Exact(Fraction(*x), counter) for v, x in ev["u"]}
    return Poly.var("p"), {v: Poly.var(f"u{v}".replace("-", "m")) for v in verts}


def reference(edges, focal, ev, verts):
    k = ev["kind"]
    if k == "float":
        phi, u = operands(ev, verts)
        return expectation(edges, focal, phi, u, one=1.0)
    if k == "exact":
        return expectation(edges, focal, Fraction(*ev["phi"]), {v: Fraction(*x) for v, x in ev["u"]}, one=Fraction(1))
    phi, u = operands(ev, verts)
    return expectation(edges, focal, phi, u, one=Poly.const(1))


def same(got, ref, kind):
    if kind == "float":
        try:
            g = float(got)
        except Exception:
            return False
        return abs(g - ref) <= 1e-9 * (1.0 + abs(ref))
    if kind == "exact":
        if isinstance(got, Exact):
            return got.v == ref
        if isinstance(got, (int, float)):
            return Fraction(got) == ref
        return False
    if isinstance(got, Poly):
        return got == ref
    if isinstance(got, (int, float)):
        return Poly.const(Fraction(got)) == ref
    return False


def show(x):
    return repr(x)[:160]


def execute(sc, ctx):
    mode = sc.get("set_order", "natural")
    before_it = setseam.ITERATIONS
    with setseam.ordering(mode, ctx.source("setorder", None)):
        _execute(sc, ctx)
    if mode != "natural" and setseam.ITERATIONS > before_it:
        ctx.fault("set_iteration_order")


def _execute(sc, ctx):
    if sc.get("kind") == "overlap":
        return execute_overlap(sc, ctx)
    P = "C15"
    AE = AutomatedEquation()
    src = ctx.source("none")
    seen = set()
    revisits = 0
    faulted = False
    faults = {}
    for f in sc.get("faults", []):
        faults.setdefault(f["eval"], f)
    for k, ev in enumerate(sc["evals"]):
        m = sc["motifs"][ev["m"]]
        edges = [tuple(e) for e in m["edges"]]
        verts = sorted({v for e in edges for v in e})
        focal = ev["focal"]
        if focal not in verts:
            focal = verts[0]
        if (ev["m"], focal) in seen:
            revisits += 1
        seen.add((ev["m"], focal))
        f = faults.get(k)
        counter = None
        if f and f["kind"] == "operand_raise" and ev["kind"] == "exact":
            counter = OpCounter(fail_at=f["at"])
        phi, u = operands(ev, verts, counter)
        if f and f["kind"] == "structure_raise":
            H = FaultyGraph(name=m["name"])
            H.add_edges_from(edges)
            H.graph["_fault"] = OpCounter(fail_at=f["at"])
        else:
            H = nx.Graph(name=m["name"])
            H.add_edges_from(edges)
        uu = dict(u)
        dropped = None
        if f and f["kind"] == "missing_attr":
            others = [v for v in verts if v != focal]
            if others:
                dropped = others[f["which"] % len(others)]
                del uu[dropped]
        nx.set_node_attributes(H, uu, "u")
        st, val = ctx.call(src, AE.automated_equation, H, phi, focal, label="automated_equation",
                           abort_at_line=(f["at"] if f and f["kind"] == "line_abort" else None))
        if st == "abort":
            faulted = True
            continue
        tag = f" (evaluation #{k} of motif {m['name']!r} focal {focal}, {ev['kind']} operands" + \
              (", after an injected fault on this evaluator)" if faulted else ")")
        if st == "fault":
            ctx.fault(f["kind"] if f else "operand_raise")
            faulted = True
            continue
        if f and f["kind"] == "structure_raise":
            H.graph.pop("_fault", None)
        if dropped is not None:
            # the library may raise (KeyError) or not need the value; either way nothing to compare
            if st == "raised":
                ctx.fault("missing_attr")
                faulted = True
                continue
            if st == "ok":
                continue
        if st != "ok":
            ctx.violate(f"{P}.raised", f"automated_equation: {st} {describe_exc(val) if st == 'raised' else ''}{tag}")
            return
        ref = reference(edges, focal, ev, verts)
        clause = f"{P}.postfault" if faulted else (f"{P}.history" if k > 0 else f"{P}.identity")
        ctx.check(f"{P}.identity")
        if faulted:
            ctx.check(f"{P}.postfault")
        if k > 0:
            ctx.check(f"{P}.history")
        if not same(val, ref, ev["kind"]):
            # history-free re-evaluation tells identity apart from history dependence
            st2, val2 = ctx.call(src, AutomatedEquation().automated_equation, H, phi, focal, label="fresh_evaluator")
            fresh_ok = st2 == "ok" and same(val2, ref, ev["kind"])
            if not fresh_ok:
                clause = f"{P}.identity"
            ctx.violate(clause, f"value {show(val)} differs from the exact expectation {show(ref)}"
                                f"{'' if not fresh_ok else ' although a fresh evaluator returns the exact value'}{tag}")
            return
        ctx.probe(f"evaluated_{ev['kind']}")
        ctx.result(k, show(val))
    ctx.nt = len(sc["evals"]) >= 2 and revisits >= 1
    ctx.probe("revisits", revisits)


def nontrivial(sc, ctx):
    return getattr(ctx, "nt", False)


def shrink(sc):
    if sc.get("kind") == "overlap":
        if sc.get("warm"):
            yield dict(sc, warm=False)
        if len(sc["evals"]) > 2:
            yield dict(sc, evals=sc["evals"][:2])
        if sc.get("policy"):
            yield dict(sc, policy={})
        return
    evs = sc["evals"]
    n = len(evs)
    if sc.get("faults"):
        yield dict(sc, faults=[])
    if n > 2:
        yield dict(sc, evals=evs[n // 2:], faults=[])
        yield dict(sc, evals=evs[: n // 2], faults=[f for f in sc.get("faults", []) if f["eval"] < n // 2])
    for i in range(n - 1, -1, -1):
        if n > 1:
            fs = []
            for f in sc.get("faults", []):
                if f["eval"] == i:
                    continue
                fs.append(dict(f, eval=f["eval"] - 1) if f["eval"] > i else f)
            yield dict(sc, evals=evs[:i] + evs[i + 1:], faults=fs)
    # simplify a motif: drop one edge if it stays connected and keeps its vertices
    for mi, m in enumerate(sc["motifs"]):
        es = m["edges"]
        for j in range(len(es)):
            rest = es[:j] + es[j + 1:]
            if not rest:
                continue
            H = nx.Graph([tuple(e) for e in rest])
            if nx.is_connected(H) and set(H.nodes()) == {v for e in es for v in e}:
                ms = list(sc["motifs"])
                ms[mi] = dict(m, edges=rest)
                yield dict(sc, motifs=ms)
