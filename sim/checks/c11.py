"""C11 — MCMC rewiring preserves vertices, degrees and motif structure.

Rewiring under scheduled edge draws and acceptance floats, prefix histories (every intermediate state
of a swap history is checked), aborts at arbitrary draws, default limits.  One genuine defect
(created edges inherit the motif id of the focal vertex's old motif) is an open known finding and is
recognised by its exact signature; every other violation alarms.
"""
from collections import Counter

import networkx as nx

from gcmpy.tools.markov_chain_monte_carlo_rewiring import MarkovChainMonteCarloRewiring

from .. import netsim, rewsim
from ..netsim import JD, TOP, MID
from ..engine import describe_exc

ID = "C11"
RUNS = {"quick": 4800, "thorough": 80000, "thorough_s": 400}
CHUNK = 100
RUN_TIMEOUT = 120.0
FINDING = "C11.shape.motif-id-inheritance"
RULE = ("seeded clean motif networks (cliques 2-4, 4-/5-cycles, 1-3 topologies, in 30% of the runs plus a motif type whose "
        "edges carry TWO topology names under one motif id - diamond rim + chord, 4-cycle + both diagonals, 5-cycle + beam, "
        "triangle + tail - so that corners hold edges of several topologies; vertex annotations as tuples, lists or both side by side; 6..16 vertices when all motifs are single "
        "edges, 12..32 vertices otherwise so that corner swaps find absent target edges, thorough ..60; motif count 0.5-1.5 x "
        "vertices, so motifs share vertices), symmetric targets (uniform/random/assortative/disassortative/spiky; full support "
        "or with pairings removed), search limits 1,2,3,5,10,25 or default, prefix histories of 1..6 (thorough ..9) accepted "
        "swaps, draw schedules uniform or mixed (each draw with prob. 0.2-0.4 forced to first/last/previous index) and "
        "acceptance floats uniform / 0.0 / 1-2^-53 / extreme / mixed, aborts at a scheduler-chosen draw, parameter "
        "dictionaries with default limits; non-trivial = at least one accepted swap was observed; distinct = distinct "
        "execution digests; 30% of the histories use ONE rewiring object throughout (limit raised through the public setter, "
        "rewire() called again); 30% of the networks rebuilt with another vertex insertion order; on single-edge motif networks half of "
        "the histories run a SECOND rewiring stage on the first stage's result (given graph compared before / after, result judged like "
        "any state); 30% of the histories end by giving the SAME rewiring object a second network (same spec, vertex labels permuted, half of the time two disjoint copies: twice the edges) "
        "through its setter; 30% replace the TARGET on the live object through the `ejks` setter and rewire again; distinct_states = distinct final rewired graphs (edge set with annotations)")
ASSUMPTIONS = ["prefix histories: rewire() is a pure function of the decision stream, so limit L+1 extends limit L by one swap",
               "decision budget exhaustion is inconclusive: rewire() has no termination guarantee and no property claims one",
               "clean networks come from a direct constructor (stub) through the library's own edge-list -> network conversion"]
REAL = ["gcmpy.tools.markov_chain_monte_carlo_rewiring.MarkovChainMonteCarloRewiring", "gcmpy.tools.draw_set.DrawSet",
        "JointExcessJointDegreeMatrices / KeysView / ProposalEdge", "EdgeListToNetwork.convert", "CPython random.choice"]
STUB = ["entropy source (decision stream)", "direct clean-network constructor", "target matrices (generated)"]


def generate(prng, tier, index):
    return rewsim.gen_scenario(prng, tier, index, "C11")


def topdeg(G):
    d = {}
    for u, v, data in G.edges(data=True):
        t = data.get(TOP)
        d[(u, t)] = d.get((u, t), 0) + 1
        d[(v, t)] = d.get((v, t), 0) + 1
    return d


def shape_problem(G, spec, ids_override=None):
    """None if every motif-id group is a motif of its original shape; else a description."""
    groups = {}
    for u, v, data in G.edges(data=True):
        mid = data.get(MID)
        if ids_override is not None:
            mid = ids_override.get(frozenset((u, v)), mid)
        try:
            groups.setdefault(mid, []).append((u, v, data.get(TOP)))
        except TypeError:
            return f"unhashable motif id {mid!r}"
    motifs = spec["motifs"]
    if set(groups) != set(range(len(motifs))):
        lost = sorted(set(range(len(motifs))) - set(groups))
        new = sorted(map(repr, set(groups) - set(range(len(motifs)))))
        return f"motif id set changed: lost {lost[:3]}, new {new[:3]}"
    for mid, all_es in sorted(groups.items()):
        pts = netsim.parts(spec, motifs[mid])
        t = pts[0][1]
        names_want = {pt["name"] for _, pt, _ in pts}
        if {e[2] for e in all_es} != names_want:
            return f"motif {mid}: edge topologies {sorted({str(e[2]) for e in all_es})}, original {sorted(names_want)}"
        es = [e for e in all_es if e[2] == t["name"]]           # main part
        verts = {x for e in es for x in e[:2]}
        k = t["size"]
        want = k * (k - 1) // 2 if t["kind"] == "clique" else k
        if len(es) != want or len(verts) != k or any(e[0] == e[1] for e in es):
            return (f"motif {mid} ({t['name']}): {len(es)} edges on {len(verts)} vertices {sorted(verts)}, "
                    f"original shape has {want} edges on {k} distinct vertices")
        H = nx.Graph([(e[0], e[1]) for e in es])
        if t["kind"] == "cycle":
            deg = Counter(x for e in es for x in e[:2])
            if any(c != 2 for c in deg.values()) or not nx.is_connected(H):
                return f"motif {mid} ({t['name']}): edges {sorted(tuple(sorted(e[:2])) for e in es)} do not form a {k}-cycle"
        if len(pts) > 1:
            # chord parts: as many as the original, each placed on the main part as in the original
            chords = [e for e in all_es if e[2] != t["name"]]
            if len(chords) != len(pts) - 1 or any(e[0] == e[1] for e in chords):
                return f"motif {mid} ({t['name']}): {len(chords)} {pts[1][1]['name']!r} edges, original has {len(pts) - 1}"
            if len({frozenset(e[:2]) for e in chords}) != len(chords):
                return f"motif {mid} ({t['name']}): repeated {pts[1][1]['name']!r} edge"
            for a, b, nm in chords:
                inside = (a in verts) + (b in verts)
                if t.get("extra_verts"):
                    if inside != 1:
                        return f"motif {mid} ({t['name']}): tail edge {(a, b)} has {inside} ends on the body, original has 1"
                elif inside != 2 or H.has_edge(a, b):
                    return (f"motif {mid} ({t['name']}): {nm!r} edge {(a, b)} is not a chord between non-adjacent vertices "
                            f"of the {k}-cycle")
            allv = verts | {x for e in chords for x in e[:2]}
            if len(allv) != netsim.motif_size(t):
                return f"motif {mid} ({t['name']}): {len(allv)} vertices, original has {netsim.motif_size(t)}"
    return None


def structural(ctx, sc, G0, G, where):
    """All clauses except shape.  Returns True if the state is structurally sound."""
    P = "C11"
    ok = True
    n0 = {v: G0.nodes[v].get(JD) for v in G0.nodes()}
    n1 = {v: G.nodes[v].get(JD) for v in G.nodes()}
    ok &= ctx.expect(f"{P}.nodes", n0 == n1 and all(len(G.nodes[v]) == len(G0.nodes[v]) for v in G.nodes()),
                     lambda: f"vertex set / vertex annotations changed {where}: {len(n1)} vertices vs {len(n0)}")
    loops = [u for u, v in G.edges() if u == v]
    ok &= ctx.expect(f"{P}.loops", not loops, lambda: f"self-loop at vertex {loops[0]} {where}")
    ok &= ctx.expect(f"{P}.edges", G.number_of_edges() == G0.number_of_edges(),
                     lambda: f"{G.number_of_edges()} edges {where}, input has {G0.number_of_edges()}")
    d0, d1 = topdeg(G0), topdeg(G)
    if d0 != d1:
        diff = sorted(k for k in set(d0) | set(d1) if d0.get(k, 0) != d1.get(k, 0))[:1]
        v, t = diff[0]
        ctx.violate(f"{P}.topdeg", f"vertex {v} has {d1.get((v, t), 0)} incident {t!r} edges {where}, input has {d0.get((v, t), 0)}")
        ok = False
    ctx.check(f"{P}.topdeg")
    return ok


def execute(sc, ctx):
    P = "C11"
    spec = sc["spec"]
    state = {"tainted": False, "swaps": 0}
    multi = {t["name"] for t in spec["topos"] if "chord_topo" in t or t.get("part_only")}

    def on_state(L, prev, G, last_float, info):
        where = f"after {L + 1} accepted swap(s)"
        state["swaps"] = L + 1
        state["final"] = G
        if multi:
            made, _ = rewsim.created_edges(prev, G)
            if len({G.edges[e].get(TOP) for e in made} & multi) >= 2:
                ctx.probe("swap_of_a_corner_with_edges_of_two_topologies")
        if not structural(ctx, sc, info["G0"], G, where):
            return False
        if state["tainted"]:
            ctx.probe("shape_not_judged_after_known_finding")
            return True
        ctx.check(f"{P}.shape")
        spec_here = info.get("spec") or spec            # a second network given to the same object has its own motif list
        prob = shape_problem(G, spec_here)
        if prob is None:
            ctx.probe("state_strictly_shape_clean")
            return True
        # signature of the recorded defect: shape-clean again after exchanging the motif ids between
        # the two groups of created edges (the two focal vertices' new edges)
        made, gone = rewsim.created_edges(prev, G)
        ids = {}
        for e in made:
            ids.setdefault(G.edges[e][MID], []).append(frozenset(e))
        if len(ids) == 2:
            (p, pe), (q, qe) = sorted(ids.items(), key=lambda kv: repr(kv[0]))
            override = {e: q for e in pe}
            override.update({e: p for e in qe})
            if shape_problem(G, spec_here, override) is None:
                state["tainted"] = True
                ctx.violate(f"{P}.shape", f"{prob} {where}; explained exactly by created edges carrying the motif id of the "
                                          f"focal vertex's old motif (ids {p} and {q} exchanged)", finding=FINDING)
                return True
        ctx.violate(f"{P}.shape", f"{prob} {where}")
        return False

    def on_abort(info):
        pass

    info = rewsim.run_history(sc, ctx, P, on_state, on_abort)
    # default limits ------------------------------------------------------------------------------
    if sc.get("defaults", "none") != "none" and "net" in info:
        ctx.check(f"{P}.defaults")
        try:
            mc = MarkovChainMonteCarloRewiring(rewsim.params_for(sc, info["net"], info["ejks"], None, search=None))
        except Exception as e:
            ctx.violate(f"{P}.defaults", f"a parameter dictionary that leaves the limits to their defaults is rejected: {describe_exc(e)}")
            mc = None
        if mc is not None:
            ctx.probe("constructed_with_default_limits")
            if sc["defaults"] == "run" and info["G0"].number_of_edges() <= 6:
                src = ctx.source("rewire-defaults", sc.get("policy"))
                st, G = ctx.call(src, mc.rewire, budget=40000, label="rewire[defaults]")
                if netsim.snapshot(info["G0"]) != info["before"]:
                    ctx.violate(f"{P}.input", "the given network was modified by rewire() with default limits")
                if st == "budget":
                    ctx.inconclusive += 1
                    ctx.probe("defaults_budget_exhausted")
                elif st != "ok":
                    ctx.violate(f"{P}.defaults", f"rewire() with default limits: {st} {describe_exc(G) if st == 'raised' else ''}")
                else:
                    ctx.probe("ran_with_default_limits")
                    structural(ctx, sc, info["G0"], G, "after a run with default limits")
    ctx.swaps = state["swaps"]
    fin = state.get("final")
    ctx.result(state["swaps"], state["tainted"],
               sorted((tuple(sorted((u, v))), str(d.get(TOP)), d.get(MID)) for u, v, d in fin.edges(data=True)) if fin is not None else None)
    if any(t["size"] > 2 for t in spec["topos"]):
        ctx.probe("network_has_multi_edge_motifs")


def nontrivial(sc, ctx):
    return getattr(ctx, "swaps", 0) >= 1


def shrink(sc):
    if sc["variant"] == "faults":
        yield dict(sc, variant="clean")
    if sc.get("defaults") != "none":
        yield dict(sc, defaults="none")
    if sc["K"] > 1:
        yield dict(sc, K=sc["K"] - 1)
    sp = sc["spec"]
    ms = sp["motifs"]
    # dropping a motif changes joint degrees, hence excess classes: regenerate a uniform full-support target
    for i in range(len(ms) - 1, -1, -1):
        if len(ms) > 2:
            sp2 = dict(sp, motifs=ms[:i] + ms[i + 1:])
            yield dict(sc, spec=sp2, target=_uniform_target(sp2))
    if sc.get("policy"):
        yield dict(sc, policy={})
    if sc.get("search_limit") is not None:
        yield dict(sc, search_limit=None)
    if sc.get("target_mode") != "uniform":
        yield dict(sc, target=_uniform_target(sp), target_mode="uniform")


def _uniform_target(spec):
    from ..simrandom import _RealRandom
    t, _ = rewsim.gen_target(_RealRandom(0), spec, "uniform", "none")
    return t
