"""C05 — sampled joint degree sequences are handshake-consistent minimal perturbations.

The sampler (shared base class, reached through the manual loader) under scheduled draws: uniform,
extreme floats at the bisect boundaries, min/max/sticky vertex choice for the handshake patch; aborts
mid-sampling followed by reuse.  Oracle: length, type, divisibility, existential minimal-perturbation
search, downstream usability, source untouched; weighted-draw law by a rigorous frequency test.
"""
import copy
from numbers import Integral
from collections import Counter
from itertools import product

from gcmpy.joint_degree.joint_degree_loaders.joint_degree_manual import JointDegreeManual
from gcmpy.joint_degree.joint_degree_loaders.joint_degree_empirical import JointDegreeEmpirical
from gcmpy.joint_degree.joint_degree_distribution import JointDegreeDistribution
from gcmpy.gcm_algorithm.gcm_algorithm_fast import GCMAlgorithmFast
from gcmpy.motif_generators.clique_motif import clique_motif
from gcmpy.names.joint_degree_names import JointDegreeNames
from gcmpy.names.gcm_algorithm_names import GCMAlgorithmNames

from .. import simrandom, stats, interesting
from ..engine import describe_exc, h64, run_seed
from ..simrandom import Source, _RealRandom

ID = "C05"
RUNS = {"quick": 48000, "thorough": 300000, "thorough_s": 240}
CHUNK = 1000
DIST_CALLS = {"quick": 400, "thorough": 20000}     # calls of N=50 draws each per weights scenario
RULE = ("seeded distributions (1-5 keys over 1-3 topologies, positive weights ints/floats/1e-9..1e9, normalised or "
        "not), motif-size vectors incl. 1, N in 1..15 (thorough ..60), built directly and through the type "
        "dispatching entry point; draw schedules uniform / extreme floats (first/last key) / min,max,sticky "
        "vertex choice / mix; aborts mid-sampling then reuse; 40% of the multi-sample histories edit the loader's distribution "
        "IN PLACE between samples (all keys replaced / re-weighted / a heavy key added, and / or one entry of the loader's live motif-size list changed) and the next sample is judged against the "
        "edited distribution; 12% of the histories use the Empirical loader and RE-CREATE it from another sequence between samples; 15% pass N and / or the key components as numpy int64; non-trivial = the sample needed at least one "
        "handshake patch or had N>=2; distinct = distinct execution digests.  Weighted-draw law: size-1 "
        "configurations (no patching) AND N=1 configurations that need the patch but whose drawn key can be read back from the "
        "output, key frequencies vs weights under the rigorous KL bound")
ASSUMPTIONS = ["minimal-perturbation oracle is existential (some assignment of support keys below the entries explains "
               "the sample with fewer than size_i added stubs per topology), so it cannot over-constrain",
               "usability = accepted by the empirical loader and by the fast generator with clique motifs"]
REAL = ["gcmpy.joint_degree.joint_degree.JointDegree.sample_jds_from_jdd / handshaking_lemma",
        "JointDegreeManual, JointDegreeEmpirical, JointDegreeDistribution dispatch", "GCMAlgorithmFast",
        "CPython random.choices / randrange algorithms"]
STUB = ["entropy source (decision stream)"]

WEIGHT_KINDS = ("small_int", "float", "normalised", "tiny", "huge", "mixed")


def gen_dist(prng, ntop, nkeys):
    keys = []
    while len(keys) < nkeys:
        k = [prng.choice((0, 0, 1, 1, 2, 3, 5)) for _ in range(ntop)]
        if k not in keys:
            keys.append(k)
    kind = prng.choice(WEIGHT_KINDS)
    if kind == "small_int":
        w = [prng.randrange(1, 6) for _ in keys]
    elif kind == "float":
        w = [round(prng.uniform(0.05, 3.0), 3) for _ in keys]
    elif kind == "normalised":
        raw = [prng.randrange(1, 10) for _ in keys]
        t = sum(raw)
        w = [r / t for r in raw]
    elif kind == "tiny":
        w = [prng.choice((1e-9, 2e-9, 5e-9)) for _ in keys]
    elif kind == "huge":
        w = [prng.choice((1e9, 3e9, 1e8)) for _ in keys]
    else:
        w = [prng.choice((1e-9, 1.0, 1e9, 3)) for _ in keys]
    return keys, w


def generate(prng, tier, index):
    big = tier == "thorough" or prng.random() < 0.08
    ntop = prng.randrange(1, 4) if prng.random() > 0.03 else prng.randrange(4, 8)
    nkeys = prng.randrange(1, 6)
    keys, w = gen_dist(prng, ntop, nkeys)
    if prng.random() < 0.03:
        # many keys (bisect over a long cumulative table) with degrees drawn from a wider range
        nk = interesting.size(prng, 6, 130)
        seen = set()
        keys = []
        while len(keys) < nk:
            k = tuple(prng.randrange(0, 12) for _ in range(ntop))
            if k not in seen:
                seen.add(k)
                keys.append(list(k))
            if len(seen) >= 12 ** ntop:
                break
        w = [prng.choice((1, 2, 0.5, 1e-9, 3.0)) for _ in keys]
    if prng.random() < 0.04:
        # boundary weights: denormals, tiny, huge (kept far from float overflow of the running total)
        w = [prng.choice((5e-324, 1e-300, 2.0 ** -53, 1e-17, 1.0, 1e9, 1e290)) for _ in keys]
    sizes = [prng.choice((1, 2, 2, 3, 3, 4, 5)) for _ in range(ntop)]
    if prng.random() < 0.06:       # unusually large motif size / degrees / N (numeric edge cases)
        sizes[prng.randrange(ntop)] = prng.choice((7, 16, 49, 64, 100, 128))
        big = True
    if prng.random() < 0.04:
        keys = [[x * prng.choice((1, 1, 7, 40)) for x in k] for k in keys]
        if len({tuple(k) for k in keys}) != len(keys):
            keys, w = gen_dist(prng, ntop, nkeys)
    variant = "faults" if index % 4 == 3 else "clean"
    pol = prng.choice(({}, {"float": "extreme"}, {"float": "lo"}, {"float": "hi"}, {"float": "mix", "p": 0.4},
                       {"int": "min"}, {"int": "max"}, {"int": "sticky"}, {"int": "mix", "p": 0.5},
                       {"float": "mix", "int": "mix", "p": 0.3}))
    if prng.random() < 0.05:
        # huge degrees: per-topology totals around and beyond 2**53 / 2**63 (exact integer arithmetic must survive)
        base = prng.choice((2 ** 53, 2 ** 53 + 1, 2 ** 54 - 1, 10 ** 16 + 1, 2 ** 63, 2 ** 64 + 3, 10 ** 11 + 1, 10 ** 19))
        keys = [[x + base * prng.choice((0, 1, 1, 3)) for x in k] for k in keys]
        if len({tuple(k) for k in keys}) != len(keys):
            keys = [[k2 + i for k2 in k] for i, k in enumerate(keys)]
    sc = {"variant": variant, "keys": keys, "weights": w, "sizes": sizes,
          "N": prng.randrange(1, 61 if big else 16) if prng.random() > 0.03 else interesting.size(prng, 1, 1025), "policy": pol, "via": prng.choice(("direct", "dispatch")),
          "samples": prng.choice((1, 1, 2, 3))}
    if variant == "faults":
        sc["abort_at"] = prng.randrange(0, sc["N"] + 4)
        if prng.random() < 0.4:
            sc["abort_line"] = prng.randrange(0, 60)
        sc["samples"] = max(2, sc["samples"])
    if prng.random() < 0.15 and all(x < 2 ** 31 for k in keys for x in k):       # sums of N int64 degrees must stay far below 2^63
        sc["np_types"] = prng.choice(("N", "keys", "both"))      # N and / or the key components as numpy int64 scalars
    if prng.random() < 0.12 and "np_types" not in sc:
        sc["loader"] = "empirical"
        sc["via"] = "direct"
        sc["samples"] = max(2, sc["samples"])
    if sc["samples"] >= 2 and (prng.random() < 0.4 or sc.get("loader") == "empirical"):
        # history on ONE loader: between two samples the distribution it holds is edited IN PLACE through the loader's own
        # attribute (a parameter sweep over weights, keys replaced) - the next sample must follow the edited distribution
        edits = []
        cur = [list(k) for k in keys]
        for _ in range(sc["samples"] - 1):
            how = prng.choice(("replace_all", "replace_all", "reweight", "add_key"))
            if how == "replace_all":
                new = [[x + 1 + i for x in k] for i, k in enumerate(cur)]
                edits.append({"del": [list(k) for k in cur], "set": [[k, prng.choice((1.0, 0.5, 2.0))] for k in new]})
                cur = new
            elif how == "reweight":
                edits.append({"del": [], "set": [[list(k), prng.choice((1e-300, 1.0, 5.0))] for k in cur]})
            else:
                k2 = [x + 2 for x in cur[-1]]
                if k2 not in cur:
                    edits.append({"del": [], "set": [[k2, 1e6]]})
                    cur = cur + [k2]
                else:
                    edits.append({"del": [], "set": []})
            if prng.random() < 0.4:
                # ... and / or one entry of the loader's live motif-size list (a size-1 topology becomes a real motif, ...)
                i = prng.randrange(len(sizes))
                edits[-1]["size"] = [i, prng.choice((1, 2, 3, 4)) if sizes[i] != 1 else prng.choice((2, 3, 3, 5))]
        sc["dist_edits"] = edits
    return sc


def n_arg(sc):
    if sc.get("np_types") in ("N", "both"):
        import numpy as np
        return np.int64(sc["N"])
    return sc["N"]


def empirical_rows(keys):
    """A joint degree sequence whose empirical distribution has exactly these keys (multiplicities 1, 2, 3, 1, ...)."""
    return [tuple(k) for i, k in enumerate(keys) for _ in range(1 + i % 3)]


def build(sc):
    if sc.get("loader") == "empirical":
        # another loader class: the distribution is DERIVED from a sequence the loader holds, and is re-created
        # (`empirical_jds = ...; create_jdd()`) rather than edited
        obj = JointDegreeEmpirical({JointDegreeNames.MOTIF_SIZES: list(sc["sizes"]), JointDegreeNames.JDS: empirical_rows(sc["keys"])})
        return obj, obj.jdd
    if sc.get("np_types") in ("keys", "both"):
        import numpy as np
        jdd = {tuple(np.int64(x) for x in k): w for k, w in zip(sc["keys"], sc["weights"])}
    else:
        jdd = {tuple(k): w for k, w in zip(sc["keys"], sc["weights"])}
    params = {JointDegreeNames.JDD: jdd, JointDegreeNames.MOTIF_SIZES: list(sc["sizes"])}
    if sc.get("via") == "dispatch":
        params[JointDegreeNames.JOINT_DEGREE_TYPE] = "manual"
        return JointDegreeDistribution.load_joint_degree(params), jdd
    return JointDegreeManual(params), jdd


def explainable(entries, keyset, sizes):
    """Existential minimal-perturbation check.  Returns (ok, reason)."""
    ntop = len(sizes)
    odd = [e for e in entries if e not in keyset]
    if len(odd) > sum(s - 1 for s in sizes):
        return False, f"{len(odd)} entries are not keys of the distribution but at most {sum(s - 1 for s in sizes)} stubs may be added"
    cands = []
    for e in odd:
        c = [k for k in keyset if all(k[i] <= e[i] for i in range(ntop))]
        if not c:
            return False, f"entry {e} is not a key with stubs added (some component was removed or it is foreign)"
        cands.append(c)
    if not odd:
        return True, ""
    # reachable vectors D of added stubs after explaining the first j non-key entries, capped componentwise at
    # size_i - 1 (anything above can never come back): at most prod(size_i) states, no matter how many entries
    caps = [s - 1 for s in sizes]
    reach = {tuple([0] * ntop)}
    for e, cs in zip(odd, cands):
        nxt = set()
        for D in reach:
            for k in cs:
                D2 = tuple(D[i] + e[i] - k[i] for i in range(ntop))
                if all(D2[i] <= caps[i] for i in range(ntop)):
                    nxt.add(D2)
        if not nxt:
            cheapest = [sum(min(e[i] - k[i] for k in cs) for e, cs in zip(odd, cands)) for i in range(ntop)]
            return False, (f"every explanation adds at least {cheapest} stubs per topology over the {len(odd)} non-key "
                           f"entries, motif sizes {list(sizes)} allow at most size-1 each")
        reach = nxt
    return True, ""


def check_sample(sc, ctx, res, jdd, jdd_before, obj, tag, caller_before=None):
    P = "C05"
    N, sizes = sc["N"], sc["sizes"]
    ntop = len(sizes)
    if not ctx.expect(f"{P}.length", isinstance(res, list) and len(res) == N,
                      lambda: f"sample has {len(res) if hasattr(res, '__len__') else '?'} entries, N={N}{tag}"):
        return False
    ctx.check(f"{P}.type")
    for v, e in enumerate(res):
        if not (isinstance(e, tuple) and len(e) == ntop
                and all(isinstance(x, Integral) and not isinstance(x, bool) and x >= 0 for x in e)):
            ctx.violate(f"{P}.type", f"entry {v} is {e!r} ({type(e).__name__}); expected a tuple of {ntop} non-negative ints{tag}")
            ctx.probe("patched_sample")
            return False
    sums = [sum(e[i] for e in res) for i in range(ntop)]
    ctx.expect(f"{P}.divisible", all(sums[i] % sizes[i] == 0 for i in range(ntop)),
               lambda: f"column sums {sums} not divisible by motif sizes {sizes}{tag}")
    ctx.check(f"{P}.minimal")
    keyset = set(jdd_before)
    ok, why = explainable(res, keyset, sizes)
    if not ok:
        ctx.violate(f"{P}.minimal", f"{why}; sample {res[:8]}{'...' if len(res) > 8 else ''}{tag}")
    if any(e not in keyset for e in res):
        ctx.probe("patched_sample")
    # source untouched
    ctx.expect(f"{P}.source", dict(obj.jdd) == jdd_before and jdd == (jdd_before if caller_before is None else caller_before)
               and list(obj.motif_sizes) == list(sizes),
               lambda: f"the distribution object / the caller's dictionary changed during sampling{tag}")
    return ok


def check_usable(sc, ctx, res, gsrc, tag):
    P = "C05"
    sizes = sc["sizes"]
    ctx.check(f"{P}.usable")
    try:
        emp = JointDegreeEmpirical({JointDegreeNames.MOTIF_SIZES: list(sizes), JointDegreeNames.JDS: res})
        want = {k: v / len(res) for k, v in Counter(res).items()}
        if emp.jdd != want:
            ctx.violate(f"{P}.usable", f"empirical loader built from the sample gives {emp.jdd}, expected {want}{tag}")
            return
    except Exception as e:
        ctx.violate(f"{P}.usable", f"empirical loader rejects the sample: {describe_exc(e)}{tag}")
        return
    params = {GCMAlgorithmNames.MOTIF_SIZES: list(sizes),
              GCMAlgorithmNames.BUILD_FUNCTIONS: [clique_motif] * len(sizes),
              GCMAlgorithmNames.EDGE_NAMES: [f"{s}-clique#{i}" for i, s in enumerate(sizes)]}
    st, g = ctx.call(gsrc, GCMAlgorithmFast(params).random_clustered_graph, list(res), label="generate")
    if st != "ok":
        ctx.violate(f"{P}.usable", f"fast generator on the sample: {st} {describe_exc(g) if st == 'raised' else ''}{tag}")
        return
    want_edges = sum(sum(e[i] for e in res) // s * (s * (s - 1) // 2) for i, s in enumerate(sizes))
    if len(g.edge_list) != want_edges:
        ctx.violate(f"{P}.usable", f"fast generator produced {len(g.edge_list)} edges from the sample, expected {want_edges}{tag}")


def execute(sc, ctx):
    P = "C05"
    try:
        obj, jdd = build(sc)
    except Exception as e:
        ctx.violate(f"{P}.raised", f"constructing the distribution raised {describe_exc(e)}")
        return
    jdd_before = dict(jdd)
    src = ctx.source("sample", sc.get("policy"))
    gsrc = ctx.source("gen", None)
    patched = False
    faulted = False
    caller_before = None
    for r in range(sc.get("samples", 1)):
        if r > 0 and sc.get("dist_edits") and r - 1 < len(sc["dist_edits"]):
            ed = sc["dist_edits"][r - 1]
            if sc.get("loader") == "empirical":
                # re-create the already sampled loader from another sequence (the keys this edit step sets)
                newk = [k for k, _ in ed["set"]] or [list(k) for k in obj.jdd]
                obj.empirical_jds = empirical_rows(newk)
                obj.create_jdd()
                ctx.probe("empirical_loader_recreated_between_samples")
                d = obj.jdd
            else:
                d = obj.jdd                              # the loader's own distribution object, edited in place
                for k in ed["del"]:
                    d.pop(tuple(k), None)
                for k, w in ed["set"]:
                    d[tuple(k)] = w
            if d:
                jdd_before = dict(d)
                caller_before = dict(jdd)
                ctx.probe("distribution_edited_in_place_between_samples")
            if ed.get("size"):
                i, new = ed["size"]
                obj.motif_sizes[i] = new                 # the loader's own list object, edited in place
                sc = dict(sc, sizes=[new if j == i else x for j, x in enumerate(sc["sizes"])])
                ctx.probe("motif_size_edited_in_place_between_samples")
        abort_at = sc.get("abort_at") if (r == 0 and sc["variant"] == "faults") else None
        if abort_at is not None and sc.get("abort_line") is not None:
            st, res = ctx.call(src, obj.sample_jds_from_jdd, n_arg(sc), abort_at_line=sc["abort_line"], budget=20000, label="sample[interrupted at line]")
        else:
            st, res = ctx.call(src, obj.sample_jds_from_jdd, n_arg(sc), abort_at=abort_at, budget=20000, label="sample")
        tag = " (sample after an aborted one on the same object)" if faulted else (" (repeated sample)" if r else "")
        if st == "abort":
            faulted = True
            ctx.expect(f"{P}.source", dict(obj.jdd) == jdd_before and jdd == (jdd_before if caller_before is None else caller_before),
                       "the distribution changed after an aborted sample")
            continue
        if st != "ok":
            ctx.violate(f"{P}.raised", f"sampling: {st} {describe_exc(res) if st == 'raised' else ''}{tag}")
            return
        if faulted:
            ctx.probe("sample_after_abort")
        good = check_sample(sc, ctx, res, jdd, jdd_before, obj, tag, caller_before)
        if any((not isinstance(e, tuple)) or e not in jdd_before for e in res):
            patched = True
        if good and sum(sum(e) for e in res) <= 20000:
            check_usable(sc, ctx, res, gsrc, tag)
        elif good:
            ctx.probe("usable_skipped_huge_degrees")
        ctx.result("sample", repr(res))
    ctx.nontrivial = patched or sc["N"] >= 2
    if any(s == 1 for s in sc["sizes"]):
        ctx.probe("size_one_topology")
    if sc["N"] == 1:
        ctx.probe("N_equals_1")


def nontrivial(sc, ctx):
    return getattr(ctx, "nontrivial", False)


def shrink(sc):
    if sc.get("dist_edits"):
        # keep keys / topologies fixed (the edits refer to them); shrink the rest
        yield {k: v for k, v in sc.items() if k != "dist_edits"}
        if sc["variant"] == "faults":
            yield dict(sc, variant="clean")
        if sc["samples"] > 2:
            yield dict(sc, samples=2, dist_edits=sc["dist_edits"][:1])
        if sc["N"] > 1:
            yield dict(sc, N=sc["N"] // 2)
            yield dict(sc, N=sc["N"] - 1)
        if sc.get("policy"):
            yield dict(sc, policy={})
        return
    if sc["variant"] == "faults":
        yield dict(sc, variant="clean", samples=1)
    if sc.get("samples", 1) > 1 and sc["variant"] != "faults":
        yield dict(sc, samples=1)
    if sc["via"] != "direct":
        yield dict(sc, via="direct")
    if sc["N"] > 1:
        yield dict(sc, N=sc["N"] // 2)
        yield dict(sc, N=sc["N"] - 1)
    nk = len(sc["keys"])
    if nk > 1:
        for i in range(nk):
            yield dict(sc, keys=sc["keys"][:i] + sc["keys"][i + 1:], weights=sc["weights"][:i] + sc["weights"][i + 1:])
    nt = len(sc["sizes"])
    if nt > 1:
        for i in range(nt):
            ks = [k[:i] + k[i + 1:] for k in sc["keys"]]
            if len({tuple(k) for k in ks}) == len(ks):
                yield dict(sc, keys=ks, sizes=sc["sizes"][:i] + sc["sizes"][i + 1:])
    if any(w != 1 for w in sc["weights"]):
        yield dict(sc, weights=[1] * nk)
    if sc.get("policy"):
        yield dict(sc, policy={})


# ------------------------------------------------------------------------------------------------
# weighted-draw law
# ------------------------------------------------------------------------------------------------
DRAWS_PER_CALL = 50


def weight_scenarios(seed, tier):
    prng = _RealRandom(h64("C05-weights", seed))
    out = [("two-keys-1:3", {"keys": [[1], [2]], "weights": [1, 3], "sizes": [1]}),
           ("unnormalised-floats", {"keys": [[0, 1], [2, 0], [1, 1]], "weights": [0.2, 0.5, 1.3], "sizes": [1, 1]}),
           ("tiny-vs-huge", {"keys": [[1], [3], [5]], "weights": [1e-9, 1e9, 1e9], "sizes": [1]})]
    for i in range(3 if tier == "quick" else 8):
        ntop = prng.randrange(1, 4)
        keys, w = gen_dist(prng, ntop, prng.randrange(2, 6))
        out.append((f"random-{i}", {"keys": keys, "weights": w, "sizes": [1] * ntop}))
    res = [(t, dict(s, N=DRAWS_PER_CALL, variant="clean", via="direct")) for t, s in out]
    # ... and configurations that DO need the handshake patch, with N = 1 so that the drawn key can be read back from the
    # output (key k becomes the smallest multiple of the motif size >= k): the draw law must not depend on whether a
    # patch is needed
    patched = [("patched-N1-size2", {"keys": [[0], [1], [3]], "weights": [1, 1, 2], "sizes": [2]}),
               ("patched-N1-size3-two-topologies", {"keys": [[0, 1], [1, 4], [4, 0], [3, 3]], "weights": [0.2, 0.3, 0.1, 0.4], "sizes": [3, 3]}),
               ("patched-N1-size5", {"keys": [[0], [1], [6], [11]], "weights": [3, 1, 1, 1], "sizes": [5]})]
    res += [(t, dict(s, N=1, variant="clean", via=("dispatch" if i % 2 else "direct"), readback=True)) for i, (t, s) in enumerate(patched)]
    return res


def dist_runs(sc, base_seed, tag, start, stop):
    obj, jdd = build(sc)
    cnt = Counter()
    digs = set()
    dec = 0
    for i in range(start, stop):
        src = Source("u:sample", _RealRandom(run_seed(base_seed, "C05:" + tag, i)), None)
        try:
            with simrandom.using(src):
                res = obj.sample_jds_from_jdd(sc["N"])
            for e in res:
                cnt[tuple(e)] += 1
        except Exception as e:
            cnt[("raised", describe_exc(e))] += 1
        digs.add(h64(tuple(src.log)))
        dec += len(src.log)
    cnt["__decisions__"] = dec
    return cnt, digs


def judge_weights(sc, counts, n_draws):
    tot = float(sum(sc["weights"]))
    exp = {tuple(k): w / tot for k, w in zip(sc["keys"], sc["weights"])}
    if sc.get("readback"):
        # N = 1: image of key k under the minimal patch; images are distinct by construction of the scenarios
        sizes = sc["sizes"]
        img = {tuple(-(-x // s) * s for x, s in zip(k, sizes)): k for k in exp}
        assert len(img) == len(exp)
        back = Counter()
        for out, c in counts.items():
            back[img.get(out, ("unexplained", out))] += c
        counts = back
    for key in counts:
        if key and key[0] == "raised":
            return [("C05.raised", f"sampling raised {key[1]}")]
    bad = stats.frequency_test(counts, exp, n_draws)
    if bad:
        c, q, p, st, thr = max(bad, key=lambda b: b[3])
        return [("C05.weights", f"key {c} drawn with frequency {q:.5f}, weight share {p:.5f}, over {n_draws} draws "
                                f"(n*KL={st:.1f} >= {thr:.1f})")]
    return []


def main(eng):
    tier = eng.tier
    budget = eng.budget_s or RUNS["thorough_s"]
    if tier == "thorough":
        eng.search_for(0.7 * budget, 32000)
    else:
        eng.search(RUNS["quick"])
    calls = DIST_CALLS[tier]
    wt = []
    ws = weight_scenarios(eng.seed, tier)
    for tag, sc in ws:
        if sc.get("readback"):
            # one draw per call (N = 1): the number of calls is the number of draws
            n_calls = 20000 if tier == "quick" else 400000
            counts = eng.distribution(sc, n_calls, tag, chunk=1000)
            n_draws = n_calls
        elif tier == "thorough":
            counts, n_calls = eng.distribution_timed(sc, tag, 0.3 * budget / len(ws), 2000, 2000, 200000, chunk=125)
            n_draws = n_calls * DRAWS_PER_CALL
        else:
            n_calls = calls
            counts = eng.distribution(sc, n_calls, tag, chunk=max(25, n_calls // 32))
            n_draws = n_calls * DRAWS_PER_CALL
        viol = judge_weights(sc, counts, n_draws)
        wt.append({"scenario_tag": tag, "keys": sc["keys"], "weights": sc["weights"], "draws": n_draws,
                   "observed": {repr(k): v / n_draws for k, v in sorted(counts.items())}})
        for clause, detail in viol:
            eng.report_custom(clause, f"[{tag}] {detail}", {"kind": "dist", "scenario": sc, "tag": tag,
                                                             "n": n_calls}, tag)
    eng.extra["weights_tests"] = wt
    eng.extra["alpha_per_test"] = stats.ALPHA
    return eng.finish()


def replay_custom(rec):
    from ..engine import Engine
    eng = Engine(ID, tier=rec.get("tier", "quick"), seed=rec["verif_seed"])
    try:
        counts = eng.distribution(rec["scenario"], rec["n"], rec["tag"],
                                  chunk=(1000 if rec["scenario"].get("readback") else max(25, rec["n"] // 32)))
    finally:
        eng.close()
    viol = judge_weights(rec["scenario"], counts, rec["n"] * (1 if rec["scenario"].get("readback") else DRAWS_PER_CALL))
    for clause, detail in viol:
        print(f"REPLAYED clause={clause} detail=[{rec['tag']}] {detail}")
    if viol:
        print(f"VIOLATION property={ID} replay=<this file>")
        return 1
    print("REPLAY: no violation")
    return 0


def dist_scenarios(seed, tier):
    return weight_scenarios(seed, tier)
