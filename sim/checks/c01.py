"""C01 — generated graphs realise exactly the requested joint degree sequence.

All three generator types (direct and through the factory) under scheduler-resolved shuffles,
instrumented build callbacks, callback faults / aborts followed by reuse of the same generator object.
Oracle: stub conservation / exactly-once over the recorded callback history.
"""
from numbers import Integral
from collections import Counter

from gcmpy.names.network_names import NetworkNames

from .. import gensim
from ..engine import describe_exc

ID = "C01"
RUNS = {"quick": 64000, "thorough": 320000, "thorough_s": 300}
CHUNK = 1000
RUN_TIMEOUT = 600.0
RULE = ("seeded scenarios: N in 1..12 (thorough ..40) vertices incl. zero-degree ones, 1-4 topologies / 1-3 "
        "custom motifs (library clique/cycle/diamond callbacks, custom shapes, multi-orbit motifs with balanced "
        "orbit columns), rows as tuples or lists, all three algorithm types built directly or via the factory, "
        "per-topology shuffle schedule (uniform/identity/reverse/rotation/adjacent swaps/near-identity), "
        "thorough tier only: three generations at scale per 16000 runs (one custom motif with an orbit of 49..187 vertices and 2e4-3e4 instances: a "
        "column of 1-6 million stubs), fault plans (callback failure at k-th invocation, abort at k-th RNG decision) followed by reuse of "
        "the generator object (rows as tuples, lists, tuples of numpy int64 / int8 or numpy int64 / uint8 rows; 10% of the custom motifs return numpy ids), half of the plain re-uses with a row-permuted sequence (in place in the caller's list object or as a new list); "
        "10% of the fast / network scenarios pass the library's own builder OBJECTS (no log: structural oracle); motif and orbit sizes "
        "occasionally from the boundary list up to 1025; non-trivial = at least one build-callback invocation (or emitted instance) happened; distinct = "
        "distinct execution digests (scenario operations + every RNG decision + outcome)")
ASSUMPTIONS = ["joint degree sequences are made handshake-consistent by construction (column sums are multiples "
               "of the motif sizes; orbit columns of one custom motif yield the same motif count)",
               "CPython's random.shuffle above the primitives is part of the system under test"]
REAL = ["gcmpy.gcm_algorithm.* (fast, network, custom motifs, factory, main)", "gcmpy.motif_generators.*",
        "gcmpy.network.* (edge list, conversion)", "CPython random.shuffle algorithm", "networkx"]
STUB = ["entropy source (decision stream)", "user build/name callbacks (instrumented; library motif "
        "generators or small custom shapes inside)"]


def generate(prng, tier, index):
    return gensim.gen_scenario(prng, tier, index, "C01")


def evaluate(sc, ctx, st, val, rec, reuse, jds, before, types_before):
    P = "C01"
    tag = ".reuse" if reuse else ""
    n = sc["n"]
    if st == "raised":
        ctx.violate(f"{P}.raised", f"generator raised {describe_exc(val)} on a handshake-consistent input"
                                   + (" (generation after a fault on the same object)" if reuse else ""))
        return
    if st != "ok":
        return
    lay = gensim.layout(sc)
    log = rec.log
    # calls ----------------------------------------------------------------------------------
    per = Counter(e["topo"] for e in log)
    for j, l in enumerate(lay):
        ctx.expect(f"{P}.calls", per.get(j, 0) == l["count"],
                   lambda: f"topology/motif {j}: {per.get(j, 0)} build invocations, expected {l['count']}{tag}")
    # arity + conservation ---------------------------------------------------------------------
    slot_use = [Counter() for _ in (sc["jds"][0] if sc["jds"] else [])]
    ok_arity = True
    for e in log:
        l = lay[e["topo"]]
        want = sum(s for _, s in l["slots"])
        args = e["args"]
        ctx.check(f"{P}.arity")
        if len(args) != want or not all(isinstance(a, Integral) and not isinstance(a, bool) and 0 <= a < n for a in args):
            ctx.violate(f"{P}.arity", f"invocation {e['seq']} of topology/motif {e['topo']} received {args}, "
                                      f"expected {want} vertex ids in 0..{n - 1}{tag}")
            ok_arity = False
            continue
        pos = 0
        for col, s in l["slots"]:
            for a in args[pos:pos + s]:
                slot_use[col][a] += 1
            pos += s
    if ok_arity:
        for col, use in enumerate(slot_use):
            used_cols = {c for l in lay for c, _ in l["slots"]}
            if col not in used_cols:
                continue
            want = Counter({v: sc["jds"][v][col] for v in range(n) if sc["jds"][v][col]})
            ctx.expect(f"{P}.conservation", use == want,
                       lambda: f"column {col}: stub slots occupied {sorted(use.items())} but joint degrees give "
                               f"{sorted(want.items())}{tag}")
    # result -----------------------------------------------------------------------------------
    try:
        obs = gensim.observe(sc, val)
    except Exception as e:
        ctx.violate(f"{P}.raised", f"result of type {type(val).__name__} is not the documented object: {describe_exc(e)}")
        return
    emitted = []
    for e in log:
        try:
            emitted.append(gensim.norm_edges(e["ret"]))
        except Exception:
            emitted.append([])
    if obs["kind"] == "list":
        edges, ids = obs["edges"], obs["ids"]
        # range
        ctx.check(f"{P}.range")
        bad = [x for x in edges if not (isinstance(x, (tuple, list)) and len(x) == 2
                                        and all(isinstance(a, Integral) and 0 <= a < n for a in x))]
        if bad:
            ctx.violate(f"{P}.range", f"edge list entry {bad[0]!r} is not a pair of vertex ids in 0..{n - 1}{tag}")
        # emitted: groups by motif id == invocations' return values
        ctx.check(f"{P}.emitted")
        if len(edges) != len(ids):
            ctx.violate(f"{P}.emitted", f"{len(edges)} edge entries but {len(ids)} motif ids: emitted motifs cannot be "
                                        f"matched to build invocations{tag}")
        else:
            groups = {}
            try:
                for e, i in zip(edges, ids):
                    groups.setdefault(i, []).append(tuple(e))
                got = Counter(tuple(g) for g in groups.values())
                want = Counter(tuple(g) for g in emitted if g)
                if got != want:
                    miss = list((want - got).elements())[:2]
                    extra = list((got - want).elements())[:2]
                    ctx.violate(f"{P}.emitted", f"motif groups differ from build invocations: missing {miss} "
                                                f"unexpected {extra}{tag}")
            except TypeError as ex:
                ctx.violate(f"{P}.emitted", f"edge list entries unusable: {ex}{tag}")
        # jds carried through
        ctx.check(f"{P}.jds")
        try:
            carried = [tuple(r) for r in obs["jds"]]
        except Exception:
            carried = None
        if carried != before:
            ctx.violate(f"{P}.jds", f"joint degrees carried by the result differ from the input by value{tag}")
    else:
        G = obs["G"]
        ctx.check(f"{P}.range")
        nodes = list(G.nodes())
        bad = [v for v in nodes if not (isinstance(v, Integral) and 0 <= v < n)]
        if bad:
            ctx.violate(f"{P}.range", f"vertex {bad[0]!r} outside 0..{n - 1}{tag}")
        ctx.check(f"{P}.jds")
        if sorted(nodes) != list(range(n)):
            missing = sorted(set(range(n)) - set(nodes))
            ctx.violate(f"{P}.jds", f"network has {len(nodes)} of {n} vertices; vertices {missing[:5]} (joint degree "
                                    f"{[before[v] for v in missing[:3]]}) and their entries vanished{tag}")
            if any(sum(before[v]) == 0 for v in missing):
                ctx.probe("zero_degree_vertex_missing")
        else:
            for v in range(n):
                jd = G.nodes[v].get(NetworkNames.JOINT_DEGREE)
                if jd is None or tuple(jd) != before[v]:
                    ctx.violate(f"{P}.jds", f"vertex {v} carries joint degree {jd!r}, input {before[v]}{tag}")
                    break
        ctx.check(f"{P}.emitted")
        want_pairs = {frozenset(e) for g in emitted for e in g}
        got_pairs = {frozenset(e) for e in G.edges()}
        if want_pairs != got_pairs:
            ctx.violate(f"{P}.emitted", f"network edges differ from the pairs the build callbacks returned: "
                                        f"missing {sorted(map(sorted, want_pairs - got_pairs))[:3]} unexpected "
                                        f"{sorted(map(sorted, got_pairs - want_pairs))[:3]}{tag}")
    # input untouched
    ctx.check(f"{P}.jds")
    if [tuple(r) for r in jds] != before or [type(r) for r in jds] != types_before or len(jds) != n:
        ctx.violate(f"{P}.jds", f"the caller's joint degree sequence was modified{tag}")
    ctx.result(st, len(log), sorted(Counter(map(len, emitted)).items()))


def execute(sc, ctx):
    sc0 = sc
    state = {"calls": 0}

    def on_result(rnd, st, val, rec, faulted, jds=None, before=None, types_before=None, scr=None):
        sc = scr or sc0
        if st == "construct_raised":
            ctx.violate("C01.raised", f"constructing the generator raised {describe_exc(val)}")
            return
        if sc.get("raw_builders"):
            state["calls"] += gensim.evaluate_raw(sc, ctx, st, val, "C01", faulted, jds, before, types_before)
            return
        state["calls"] += len(rec.log)
        if faulted:
            ctx.probe("generation_after_fault")
        if rnd > 0 and not faulted:
            ctx.probe("plain_reuse")
        if any(sum(r) == 0 for r in sc["jds"]):
            ctx.probe("zero_degree_vertex")
        evaluate(sc, ctx, st, val, rec, faulted, jds, before, types_before)

    gensim.run_generation(sc, ctx, on_result)
    ctx.calls = state["calls"]
    if sc.get("scale"):
        ctx.probe("scale_run_stubs", sum(r[0] for r in sc["jds"]))
    if sc["algo"] == "motifs" and any(len(m["orbits"]) > 1 for m in sc["motifs"]):
        ctx.probe("multi_orbit_motif")
    ctx.probe(f"algo_{sc['algo']}_{sc['via']}")


def nontrivial(sc, ctx):
    return getattr(ctx, "calls", 0) >= 1


def shrink(sc):
    n = sc["n"]
    jds = sc["jds"]
    # drop fault / repeat
    if sc.get("faults"):
        for i in range(len(sc["faults"])):
            yield dict(sc, faults=sc["faults"][:i] + sc["faults"][i + 1:])
    if sc.get("repeat", 1) > 1 and not sc.get("faults"):
        yield dict(sc, repeat=1)
    if sc["via"] == "factory":
        yield dict(sc, via="direct")
    # drop a topology / motif (with its columns)
    if sc["algo"] in ("fast", "network") and len(sc["topos"]) > 1:
        for k in range(len(sc["topos"])):
            yield dict(sc, topos=sc["topos"][:k] + sc["topos"][k + 1:],
                       jds=[r[:k] + r[k + 1:] for r in jds],
                       policy={"shuffle": "uniform"})
    if sc["algo"] == "motifs" and len(sc["motifs"]) > 1:
        col = 0
        for j, m in enumerate(sc["motifs"]):
            w = len(m["orbits"])
            yield dict(sc, motifs=sc["motifs"][:j] + sc["motifs"][j + 1:],
                       jds=[r[:col] + r[col + w:] for r in jds], policy={"shuffle": "uniform"})
            col += w
    # remove one motif instance worth of stubs from a column group
    lay = gensim.layout(sc)
    for l in lay:
        if l["count"] <= 0:
            continue
        new = [list(r) for r in jds]
        ok = True
        for col, s in l["slots"]:
            left = s
            for v in range(n - 1, -1, -1):
                take = min(left, new[v][col])
                new[v][col] -= take
                left -= take
                if left == 0:
                    break
            ok = ok and left == 0
        if ok:
            yield dict(sc, jds=new)
    # drop last vertex if it has no stubs, or move its stubs to vertex 0
    if n > 1:
        last = jds[-1]
        new = [list(r) for r in jds[:-1]]
        for c, x in enumerate(last):
            new[0][c] += x
        yield dict(sc, n=n - 1, jds=new)
    pol = sc.get("policy", {}).get("shuffle")
    if pol != "uniform" and pol != "identity":
        yield dict(sc, policy={"shuffle": "identity"})
