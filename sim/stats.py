"""Rigorous tail bound used by the distributional clauses (C03, C05.weights, C18.star).

For a cell with true probability p and observed frequency q over n i.i.d. runs:
    P(n * KL(q || p) >= t) <= 2 * exp(-t)        (Chernoff, both tails)
A test over `cells` cells alarms only if some cell exceeds t = ln(2 * cells / alpha); by the union bound
the false-alarm probability on correct code is below alpha (1e-12) for every seed.
"""
import math

ALPHA = 1e-12


def kl_bernoulli(q, p):
    if p <= 0.0:
        return 0.0 if q <= 0.0 else math.inf
    if p >= 1.0:
        return 0.0 if q >= 1.0 else math.inf
    t = 0.0
    if q > 0.0:
        t += q * math.log(q / p)
    if q < 1.0:
        t += (1.0 - q) * math.log((1.0 - q) / (1.0 - p))
    return t


def threshold(cells, alpha=ALPHA):
    return math.log(2.0 * max(1, cells) / alpha)


def frequency_test(counts, expected, n, alpha=ALPHA):
    """counts: {cell: observed}, expected: {cell: probability}.  Returns list of (cell, observed
    frequency, expected probability, n*KL, threshold) for cells over the threshold, plus cells observed
    outside the support (probability 0)."""
    cells = len(expected)
    thr = threshold(cells + 1, alpha)
    bad = []
    for c, k in counts.items():
        if c not in expected or expected[c] == 0:
            bad.append((c, k / n, 0.0, math.inf, thr))
    for c, p in expected.items():
        p = float(p)
        q = counts.get(c, 0) / n
        stat = n * kl_bernoulli(q, p)
        if stat >= thr:
            bad.append((c, q, p, stat, thr))
    return bad


def min_detectable(p, n, cells, alpha=ALPHA):
    """Approximate absolute deviation at probability p that the test detects."""
    thr = threshold(cells + 1, alpha)
    return math.sqrt(2.0 * p * (1.0 - p) * thr / n)
