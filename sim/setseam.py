"""Set-iteration-order seam.

The iteration order of a hash set is unspecified by the language and, for small ints, an accident of table size and
insertion history.  A correct program must not depend on it, so it is a source of nondeterminism that belongs behind
a seam: `SimSet` is injected as the name `set` into a library module's globals (module attributes are the seam, no
change to /repo), behaves exactly like `set`, and iterates in an order the scheduler chooses:

    natural   - the builtin order (default: behaviour identical to the unmodified module)
    reversed  - the builtin order backwards
    rotated   - the builtin order rotated by a scheduler-chosen offset
    shuffled  - a permutation chosen decision by decision (Fisher-Yates on the "setorder" stream: replayable)

Every operation that would return a plain set returns a SimSet, including the reflected ones, so that sets derived
from a controlled set stay controlled.
"""

MODE = "natural"
ORDER = None        # Source answering the shuffle decisions (set by the check around a library call)
ITERATIONS = 0      # number of controlled iterations (probe)


def _wrap(x):
    return SimSet(x) if type(x) is set else x


class SimSet(set):
    __slots__ = ()

    def __iter__(self):
        global ITERATIONS
        items = list(set.__iter__(self))
        n = len(items)
        if MODE == "natural" or n < 2:
            return iter(items)
        ITERATIONS += 1
        if MODE == "reversed":
            items.reverse()
        elif MODE == "rotated":
            k = ORDER.next_int(n, "setorder") if ORDER is not None else 1
            items = items[k:] + items[:k]
        elif MODE == "shuffled":
            for i in range(n - 1, 0, -1):
                j = ORDER.next_int(i + 1, "setorder") if ORDER is not None else 0
                items[i], items[j] = items[j], items[i]
        return iter(items)

    def copy(self):
        return SimSet(set.copy(self))

    def __reduce__(self):
        return (SimSet, (list(set.__iter__(self)),))


def _binary(name):
    base = getattr(set, name)

    def op(self, other):
        r = base(self, other)
        return r if r is NotImplemented else _wrap(r)
    op.__name__ = name
    return op


for _n in ("__sub__", "__rsub__", "__or__", "__ror__", "__and__", "__rand__", "__xor__", "__rxor__"):
    setattr(SimSet, _n, _binary(_n))


def _method(name):
    base = getattr(set, name)

    def m(self, *others):
        return _wrap(base(self, *others))
    m.__name__ = name
    return m


for _n in ("difference", "union", "intersection", "symmetric_difference"):
    setattr(SimSet, _n, _method(_n))


def install(module):
    """Make `set(...)` inside `module` construct SimSets (behaviour unchanged while MODE == 'natural')."""
    module.__dict__["set"] = SimSet


class ordering:
    """Context manager: iterate controlled sets in `mode`, shuffle decisions answered by `source`."""

    def __init__(self, mode, source=None):
        self.mode, self.source = mode, source

    def __enter__(self):
        global MODE, ORDER
        self.prev = (MODE, ORDER)
        MODE, ORDER = self.mode, self.source
        return self

    def __exit__(self, *exc):
        global MODE, ORDER
        MODE, ORDER = self.prev
        return False
