"""Deterministic simulation engine: seeded runs, decision streams, faults, replay, minimiser, evidence.

One integer (VERIF_SEED) decides everything: run_seed = H(VERIF_SEED, property, run index); a private
random.Random(run_seed) generates swarm configuration, scenario and fault plan; decision streams are
seeded from (run_seed, stream name).  The global `random` module is the system under test and is
never used by the harness itself.
"""
import faulthandler
import hashlib
import importlib
import json
import os
import signal
import subprocess
import sys
import time
import traceback
from collections import Counter
from concurrent.futures import ProcessPoolExecutor, as_completed
import multiprocessing

from . import simrandom
from .simrandom import (SimAbort, SimBudget, SimFault, HarnessError, Source, _RealRandom)

VERIF_DIR = os.path.dirname(os.path.dirname(os.path.abspath(__file__)))
REPO = os.environ.get("VERIF_REPO", "/repo")
OUT_DIR = os.environ.get("VERIF_OUT_DIR") or os.path.join(VERIF_DIR, "out")
REPLAY_DIR = os.path.join(OUT_DIR, "replays")
EVIDENCE_DIR = os.environ.get("VERIF_EVIDENCE_DIR") or os.path.join(VERIF_DIR, "evidence")
KNOWN_FILE = os.path.join(VERIF_DIR, "known_findings.json")

CLAIMED = ["C01", "C02", "C03", "C05", "C09", "C10", "C11", "C12", "C13", "C15", "C17", "C18", "C20"]


class SimHang(BaseException):
    """Wall-clock watchdog fired inside a library operation."""


def h64(*parts):
    return int.from_bytes(hashlib.blake2b(repr(parts).encode(), digest_size=8).digest(), "big")


def run_seed(base, prop, index):
    return h64("run", int(base), prop, int(index))


def bootstrap():
    """Install the RNG seam, then import gcmpy from the working tree under test."""
    simrandom.install()
    if REPO not in sys.path:
        sys.path.insert(0, REPO)
    import warnings
    warnings.filterwarnings("ignore", category=SyntaxWarning)
    import gcmpy  # noqa: F401
    origin = os.path.realpath(os.path.dirname(os.path.dirname(gcmpy.__file__)))
    if origin != os.path.realpath(REPO):
        raise HarnessError(f"gcmpy imported from {origin}, expected {REPO}")
    simrandom.tripwire()


# ------------------------------------------------------------------------------------------------
# per-run context
# ------------------------------------------------------------------------------------------------
class LineAbort:
    """Fault injector: raises SimAbort when the k-th LINE of library code (files under <repo>/gcmpy) is about to execute -
    a crash / interrupt at an arbitrary point, not only at the points the simulator owns (draws, callbacks, operands)."""

    def __init__(self, at):
        self.at = at
        self.n = 0
        self.fired = False
        self.root = os.path.join(os.path.realpath(REPO), "gcmpy") + os.sep

    def _local(self, frame, event, arg):
        if event == "line":
            if self.n == self.at and not self.fired:
                self.fired = True
                sys.settrace(None)
                raise SimAbort(f"injected abort at library line event {self.at} ({os.path.basename(frame.f_code.co_filename)}:{frame.f_lineno})")
            self.n += 1
        return self._local

    def _global(self, frame, event, arg):
        if self.fired:
            return None
        fn = frame.f_code.co_filename
        if fn.startswith(self.root) or os.path.realpath(fn).startswith(self.root):
            return self._local
        return None

    def __enter__(self):
        self.prev = sys.gettrace()
        sys.settrace(self._global)
        return self

    def __exit__(self, *exc):
        sys.settrace(self.prev)
        return False


class Violation:
    __slots__ = ("clause", "detail", "finding")

    def __init__(self, clause, detail, finding=None):
        self.clause = clause
        self.detail = detail
        self.finding = finding

    def key(self):
        return (self.clause, self.finding)

    def as_dict(self):
        return {"clause": self.clause, "detail": self.detail, "finding": self.finding}


class Ctx:
    def __init__(self, seed, replay_streams=None, run_timeout=30.0):
        self.seed = seed
        self.replay = replay_streams is not None
        self.replay_streams = replay_streams or {}
        self.sources = {}
        self.h = hashlib.blake2b(digest_size=8)
        self.outcome = hashlib.blake2b(digest_size=8)
        self.violations = []
        self.clauses = Counter()
        self.probes = Counter()
        self.faults = Counter()
        self.policies = Counter()
        self.operations = 0
        self.inconclusive = 0
        self.run_timeout = run_timeout

    # decision streams -----------------------------------------------------------------------
    def source(self, name, policy=None):
        s = self.sources.get(name)
        if s is not None:
            return s
        if name.startswith("u:"):
            # always i.i.d. uniform from (run seed, name): never scripted, never minimised, so that
            # distribution-dependent clauses (coverage) cannot be made to fail by editing a script
            s = Source(name, _RealRandom(h64("stream", self.seed, name)), None)
        elif self.replay:
            s = Source(name, None, policy, script=self.replay_streams.get(name, []), tail="zero")
        else:
            s = Source(name, _RealRandom(h64("stream", self.seed, name)), policy)
            if policy:
                self.policies["|".join(f"{k}={policy[k]}" for k in sorted(policy))] += 1
            else:
                self.policies["uniform"] += 1
        self.sources[name] = s
        return s

    def streams(self):
        return {n: list(s.record()) for n, s in self.sources.items() if not n.startswith("u:")}

    def decisions(self):
        return sum(len(s.record()) for s in self.sources.values())

    # bookkeeping ----------------------------------------------------------------------------
    def event(self, *parts):
        self.h.update(repr(parts).encode())

    def result(self, *parts):
        """Fold an observable outcome into both the execution digest and the outcome digest."""
        b = repr(parts).encode()
        self.h.update(b)
        self.outcome.update(b)

    def check(self, clause):
        self.clauses[clause] += 1

    def violate(self, clause, detail, finding=None):
        if len(self.violations) < 50:
            self.violations.append(Violation(clause, str(detail)[:600], finding))

    def expect(self, clause, cond, detail):
        """Evaluate one clause instance; `detail` may be a callable to keep the happy path cheap."""
        self.clauses[clause] += 1
        if not cond:
            self.violate(clause, detail() if callable(detail) else detail)
        return cond

    def probe(self, name, n=1):
        self.probes[name] += n

    def fault(self, kind, n=1):
        self.faults[kind] += n

    # run one library operation --------------------------------------------------------------
    def call(self, src, fn, *args, budget=None, abort_at=None, abort_at_line=None, label=None, **kw):
        """Returns (status, value): ok | abort | budget | fault | raised | hang.
        abort_at: abort at the k-th RNG decision; abort_at_line: abort at the k-th executed line of library code."""
        self.operations += 1
        start = len(src.log)
        src.begin_op(budget=budget, abort_at=abort_at)
        status, value = "ok", None
        line_abort = LineAbort(abort_at_line) if abort_at_line is not None else None
        try:
            with simrandom.using(src):
                if line_abort is not None:
                    with line_abort:
                        value = fn(*args, **kw)
                else:
                    value = fn(*args, **kw)
        except SimAbort:
            status = "abort"
            self.fault("abort_at_line" if (line_abort is not None and line_abort.fired) else "abort_at_decision")
        except SimBudget:
            status = "budget"
        except SimHang:
            status = "hang"
        except SimFault as e:
            status, value = "fault", e
        except HarnessError:
            raise
        except Exception as e:  # the library raised on its own
            status, value = "raised", e
        except BaseException as e:
            # e.g. `raise "string"` in the library gives TypeError (an Exception); anything else
            # (KeyboardInterrupt, SystemExit) is not ours to swallow
            raise
        finally:
            src.begin_op()
        self.event("op", label or getattr(fn, "__name__", "op"), status, src.log[start:])
        return status, value

    def digest(self):
        return int.from_bytes(self.h.digest(), "big")

    def outcome_digest(self):
        return int.from_bytes(self.outcome.digest(), "big")


def describe_exc(e):
    """Stable description of an exception (no addresses).  Statuses without an exception object (hang, budget,
    abort) pass None: that must describe itself, not crash the harness."""
    if not isinstance(e, BaseException):
        return "no result (the call did not return: watchdog or decision budget)" if e is None else f"returned {type(e).__name__}"
    tb = traceback.extract_tb(e.__traceback__)
    where = ""
    for fr in reversed(tb):
        if "/gcmpy/" in fr.filename:
            where = f" at {fr.filename.split('/gcmpy/', 1)[1]}:{fr.name}"
            break
    msg = str(e)
    if " at 0x" in msg:
        msg = msg.split(" at 0x")[0]
    return f"{type(e).__name__}: {msg[:160]}{where}"


# ------------------------------------------------------------------------------------------------
# executing runs
# ------------------------------------------------------------------------------------------------
def load_check(cid):
    return importlib.import_module(f"sim.checks.{cid.lower()}")


def _alarm(signum, frame):
    raise SimHang()


def execute(check, scenario, seed, replay_streams=None, timeout=None):
    """One run under two watchdogs: `t` seconds of PROCESS CPU TIME (ITIMER_PROF: independent of how busy the machine
    is - a wall-clock limit false-alarmed when a legitimately heavy run met an oversubscribed machine) and a wall-clock
    backstop at 10 t for anything that blocks without consuming CPU."""
    ctx = Ctx(seed, replay_streams)
    t = timeout or getattr(check, "RUN_TIMEOUT", 60.0)
    old_alrm = signal.signal(signal.SIGALRM, _alarm)
    old_prof = signal.signal(signal.SIGPROF, _alarm)
    signal.setitimer(signal.ITIMER_PROF, t)
    signal.setitimer(signal.ITIMER_REAL, 10 * t)
    try:
        check.execute(scenario, ctx)
    except SimHang:
        # ctx.call() catches the watchdog while LIBRARY code runs (status "hang", judged by the check).  If it
        # gets here it fired in scenario construction or in an oracle: that is the harness's time, not the
        # library's, and must never be reported as a violation.
        raise HarnessError(f"watchdog ({t:.0f}s CPU / {10 * t:.0f}s wall) fired outside a library call (oracle or scenario "
                           f"construction too slow) in {check.ID}")
    finally:
        signal.setitimer(signal.ITIMER_PROF, 0)
        signal.setitimer(signal.ITIMER_REAL, 0)
        signal.signal(signal.SIGALRM, old_alrm)
        signal.signal(signal.SIGPROF, old_prof)
        simrandom.SIM.src = None
    return ctx


def make_scenario(check, base_seed, index, tier):
    rs = run_seed(base_seed, check.ID, index)
    prng = _RealRandom(rs)
    sc = check.generate(prng, tier, index)
    return rs, sc


def _chunk(args):
    cid, base_seed, tier, start, stop = args
    check = load_check(cid)
    faulthandler.dump_traceback_later((stop - start) * getattr(check, "RUN_TIMEOUT", 60.0) + 300, exit=True)
    out = {"clauses": Counter(), "probes": Counter(), "faults": Counter(), "policies": Counter(),
           "digests": [], "outcomes": set(), "nontrivial": [], "fail": [], "decisions": 0, "operations": 0,
           "inconclusive": 0, "n": 0, "variants": Counter()}
    for idx in range(start, stop):
        rs, sc = make_scenario(check, base_seed, idx, tier)
        ctx = execute(check, sc, rs)
        out["n"] += 1
        out["clauses"].update(ctx.clauses)
        out["probes"].update(ctx.probes)
        out["faults"].update(ctx.faults)
        out["policies"].update(ctx.policies)
        out["variants"][sc.get("variant", "clean")] += 1
        d = ctx.digest()
        out["digests"].append(d)
        out["outcomes"].add(ctx.outcome_digest())
        dec = ctx.decisions()
        out["decisions"] += dec
        out["operations"] += ctx.operations
        out["inconclusive"] += ctx.inconclusive
        if check.nontrivial(sc, ctx) if hasattr(check, "nontrivial") else (dec >= 1 or ctx.operations >= 2):
            out["nontrivial"].append(d)
        for v in ctx.violations:
            out["fail"].append((idx, v.clause, v.detail, v.finding))
    faulthandler.cancel_dump_traceback_later()
    return out


def _digest_chunk(args):
    cid, base_seed, tier, start, stop = args
    check = load_check(cid)
    out = []
    for idx in range(start, stop):
        rs, sc = make_scenario(check, base_seed, idx, tier)
        ctx = execute(check, sc, rs)
        # execution digest + outcome digest + what was found: all must be reproducible
        out.append((idx, f"{ctx.digest():016x}-{ctx.outcome_digest():016x}-{ctx.decisions()}-"
                         f"{h64(tuple((v.clause, v.detail, v.finding) for v in ctx.violations)):016x}"))
    return out


def digest_runs(eng, n, chunk=5):
    jobs = [(eng.cid, eng.seed, eng.tier, a, min(a + chunk, n)) for a in range(0, n, chunk)]
    # rare scenario kinds that live at fixed run indexes beyond the first n (e.g. C12's label-layout runs)
    jobs += [(eng.cid, eng.seed, eng.tier, a, a + 1) for a in getattr(eng.check, "DIGEST_EXTRA", ()) if a >= n]
    for part in eng.map(_digest_chunk, jobs):
        for idx, d in part:
            yield idx, d
    # distribution phases (C03, C05, C18): outcome counts of a small batch per scenario, through the pool
    check = eng.check
    lister = getattr(check, "dist_scenarios", None)
    if lister is not None:
        for k, (tag, sc) in enumerate(lister(eng.seed, eng.tier)[:6]):
            cnt = eng.distribution(sc, 600, tag, chunk=100)
            yield f"dist:{tag}", f"{h64(tuple(sorted((repr(a), b) for a, b in cnt.items()))):016x}"


def _dist_chunk(args):
    cid, sc, base_seed, tag, start, stop = args
    faulthandler.dump_traceback_later(900, exit=True)
    check = load_check(cid)
    try:
        return check.dist_runs(sc, base_seed, tag, start, stop)
    finally:
        simrandom.SIM.src = None
        faulthandler.cancel_dump_traceback_later()


class Engine:
    def __init__(self, cid, tier="quick", seed=0, workers=None, budget_s=None):
        self.cid = cid
        self.check = load_check(cid)
        self.tier = tier
        self.seed = int(seed)
        self.workers = workers or int(os.environ.get("VERIF_WORKERS", "0")) or (os.cpu_count() or 4)
        self.budget_s = budget_s
        self.t0 = time.time()
        self.stats = {"clauses": Counter(), "probes": Counter(), "faults": Counter(), "policies": Counter(),
                      "variants": Counter(), "decisions": 0, "operations": 0, "inconclusive": 0, "n": 0}
        self.digests = set()
        self.nontrivial = set()
        self.outcomes = set()
        self.fail = []
        self.samples = []
        self.extra = {}
        self.violation_lines = []
        self.known_lines = []
        self.known = load_known()
        self.pool = None

    # -- pool ------------------------------------------------------------------------------
    def _pool(self):
        if self.pool is None:
            self.pool = ProcessPoolExecutor(max_workers=self.workers,
                                            mp_context=multiprocessing.get_context("fork"))
        return self.pool

    def close(self):
        if self.pool is not None:
            self.pool.shutdown(wait=True, cancel_futures=True)
            self.pool = None

    def map(self, fn, jobs):
        """Run picklable top-level fn over jobs on the pool; yields results keyed by job order."""
        if self.workers <= 1:
            return [fn(j) for j in jobs]
        futs = {self._pool().submit(fn, j): i for i, j in enumerate(jobs)}
        res = [None] * len(jobs)
        for f in as_completed(futs):
            res[futs[f]] = f.result()
        return res

    # -- seeded search ---------------------------------------------------------------------
    def search(self, n_runs, start=0, chunk=None):
        chunk = chunk or getattr(self.check, "CHUNK", 100)
        jobs = [(self.cid, self.seed, self.tier, a, min(a + chunk, start + n_runs))
                for a in range(start, start + n_runs, chunk)]
        for out in self.map(_chunk, jobs):
            for k in ("clauses", "probes", "faults", "policies", "variants"):
                self.stats[k].update(out[k])
            for k in ("decisions", "operations", "inconclusive", "n"):
                self.stats[k] += out[k]
            self.digests.update(out["digests"])
            self.nontrivial.update(out["nontrivial"])
            self.outcomes.update(out["outcomes"])
            self.fail.extend(out["fail"])
        return n_runs

    def distribution(self, sc, n, tag, chunk=2500, start=0):
        """n i.i.d. uniform runs (indexes start..start+n-1) of one scenario; returns Counter of outcome keys.
        The check module supplies dist_runs(sc, base_seed, tag, start, stop) -> (Counter, set of digests)."""
        jobs = [(self.cid, sc, self.seed, tag, a, min(a + chunk, start + n)) for a in range(start, start + n, chunk)]
        total = Counter()
        digs = set()
        for cnt, dg in self.map(_dist_chunk, jobs):
            total.update(cnt)
            if len(digs) < 300000:
                digs.update(dg)
        self.stats["decisions"] += total.pop("__decisions__", 0)
        self.stats["operations"] += n
        self.extra["dist_runs"] = self.extra.get("dist_runs", 0) + n
        self.extra["dist_distinct"] = self.extra.get("dist_distinct", 0) + len(digs)
        return total

    def distribution_timed(self, sc, tag, seconds, round_n, min_n, max_n, chunk=2500):
        """Accumulate rounds of `round_n` runs until `seconds` are used (at least min_n, at most max_n).  The
        sample size depends on elapsed time only, never on the counts, so judging the total once at the end
        involves no optional stopping.  Returns (Counter, n)."""
        total = Counter()
        n = 0
        t_end = time.time() + seconds
        while n < min_n or (time.time() < t_end and n < max_n):
            total.update(self.distribution(sc, round_n, tag, chunk=chunk, start=n))
            n += round_n
        return total, n

    def search_for(self, seconds, round_runs, start=0, max_runs=None):
        """Rounds of `round_runs` runs until the wall budget is used (thorough tier)."""
        done = 0
        t_end = time.time() + seconds
        while time.time() < t_end and (max_runs is None or done < max_runs):
            self.search(round_runs, start=start + done)
            done += round_runs
            if self.unknown_failures():
                break
        return done

    def unknown_failures(self):
        open_ids = {f["id"] for f in self.known.get("open", []) if f.get("property") == self.cid}
        return [f for f in self.fail if not (f[3] and f[3] in open_ids)]

    # -- samples -----------------------------------------------------------------------------
    def collect_samples(self, indexes=(0, 1, 2)):
        for idx in indexes:
            rs, sc = make_scenario(self.check, self.seed, idx, self.tier)
            ctx = execute(self.check, sc, rs)
            streams = ctx.streams()
            self.samples.append({
                "run_index": idx, "run_seed": rs, "scenario": sc,
                "decisions": {k: (v if len(v) <= 40 else v[:40] + [f"... {len(v) - 40} more"])
                              for k, v in streams.items()},
                "digest": f"{ctx.digest():016x}",
                "violations": [v.as_dict() for v in ctx.violations],
            })

    # -- violations --------------------------------------------------------------------------
    def process_failures(self, max_reports=3):
        """Turn failing runs into minimised, replay-verified records.  Returns number of unknown
        (= not listed as open known finding) violations reported."""
        if not self.fail:
            return 0
        open_ids = {f["id"]: f for f in self.known.get("open", []) if f.get("property") == self.cid}
        by_key = {}
        for idx, clause, detail, finding in sorted(self.fail):
            by_key.setdefault((clause, finding), []).append((idx, detail))
        unknown = 0
        for (clause, finding), items in sorted(by_key.items(), key=lambda kv: kv[1][0][0]):
            if all((": hang" in d or "wall clock" in d) for _, d in items):
                # "no result" verdicts rest on a time limit: each must reproduce when the run is executed again with
                # three times the limit, otherwise it was a slow run, not a hang, and is only counted
                kept = []
                for idx, d in items[:5]:
                    rs, sc = make_scenario(self.check, self.seed, idx, self.tier)
                    c2 = execute(self.check, sc, rs, timeout=3 * getattr(self.check, "RUN_TIMEOUT", 60.0))
                    if _matching(c2, clause, finding) is not None:
                        kept.append((idx, d))
                        break           # one confirmed reproduction is enough; each costs the full time limit
                self.extra["timeouts_not_reproduced"] = self.extra.get("timeouts_not_reproduced", 0) + (0 if kept else len(items[:5]))
                if not kept:
                    continue
                items = kept
            if finding and finding in open_ids:
                self.known_lines.append(
                    f"KNOWN-FINDING: property={self.cid} {finding}: {open_ids[finding].get('what', '')} "
                    f"[{len(items)} occurrence(s) this run, e.g. run {items[0][0]}: {items[0][1][:200]}]")
                continue
            unknown += 1
            if unknown > max_reports:
                continue
            idx, detail = items[0]
            path = self.report_violation(idx, clause, finding, detail, len(items))
            self.violation_lines.append(f"VIOLATION property={self.cid} replay={path}")
        return unknown

    def report_violation(self, idx, clause, finding, detail, count):
        check = self.check
        rs, sc = make_scenario(check, self.seed, idx, self.tier)
        ctx = execute(check, sc, rs)
        rec = {"property": self.cid, "kind": "run", "clause": clause, "finding": finding,
               "detail": detail, "verif_seed": self.seed, "tier": self.tier, "run_index": idx,
               "run_seed": rs, "scenario": sc, "streams": ctx.streams(), "minimised": False,
               "hashseed": int(os.environ.get("PYTHONHASHSEED", "0") or 0),
               "occurrences_in_batch": count}
        match = _matching(ctx, clause, finding)
        if match is None:
            rec["note"] = "violation did not reproduce in the parent process (harness nondeterminism?)"
        else:
            rec["detail"] = match.detail
            try:
                rec = minimise(check, rec)
            except Exception as e:  # minimiser trouble must not hide the violation
                rec["note"] = f"minimiser failed: {e!r}"
        os.makedirs(REPLAY_DIR, exist_ok=True)
        path = os.path.join(REPLAY_DIR, f"{self.cid}-{self.seed}-{idx}-{clause.split('.')[-1]}.json")
        with open(path, "w") as f:
            json.dump(rec, f, indent=1, sort_keys=True)
        ok, msg = verify_fresh(self.cid, path, clause)
        rec["fresh_interpreter_replay"] = msg
        with open(path, "w") as f:
            json.dump(rec, f, indent=1, sort_keys=True)
        print(f"violation clause={clause} run={idx} detail={rec['detail']}")
        print(f"  replay file {path} ({'reproduces in a fresh interpreter' if ok else 'FRESH REPLAY MISMATCH: ' + msg})")
        return path

    def report_custom(self, clause, detail, record, tag):
        """Violation found by a non-run-shaped phase (distribution tests...)."""
        rec = dict(record)
        rec.update({"property": self.cid, "clause": clause, "detail": detail, "verif_seed": self.seed,
                    "tier": self.tier, "hashseed": int(os.environ.get("PYTHONHASHSEED", "0") or 0)})
        os.makedirs(REPLAY_DIR, exist_ok=True)
        path = os.path.join(REPLAY_DIR, f"{self.cid}-{self.seed}-{tag}-{clause.split('.')[-1]}.json")
        with open(path, "w") as f:
            json.dump(rec, f, indent=1, sort_keys=True)
        ok, msg = verify_fresh(self.cid, path, clause)
        rec["fresh_interpreter_replay"] = msg
        with open(path, "w") as f:
            json.dump(rec, f, indent=1, sort_keys=True)
        print(f"violation clause={clause} detail={detail}")
        print(f"  replay file {path} ({'reproduces in a fresh interpreter' if ok else 'FRESH REPLAY MISMATCH: ' + msg})")
        self.violation_lines.append(f"VIOLATION property={self.cid} replay={path}")
        self.extra["custom_violations"] = self.extra.get("custom_violations", 0) + 1

    # -- evidence ----------------------------------------------------------------------------
    def write_evidence(self, n_violations):
        check = self.check
        wall = time.time() - self.t0
        n = self.stats["n"] + self.extra.get("dist_runs", 0)
        cov = {
            "evaluations": n,
            "distinct_nontrivial": len(self.nontrivial) + self.extra.get("dist_distinct", 0),
            "rule": check.RULE,
            "samples": self.samples or [{"note": "no sample collected"}],
            "distinct_executions": len(self.digests),
            "distinct_states": len(self.outcomes),
            "runs_per_hour": int(n / wall * 3600) if wall > 0 else 0,
            "seeds": {"verif_seed": self.seed, "run_seed": "H(verif_seed, property, run_index)",
                      "python_hash_seed": int(os.environ.get("PYTHONHASHSEED", "0") or 0),
                      "run_indexes": [0, self.stats["n"]]},
            "logical_time": {"rng_decisions_answered": self.stats["decisions"],
                             "library_operations": self.stats["operations"]},
            "simulated_clock": "none: gcmpy reads no clock; time is logical (decisions, operations)",
            "variants": dict(self.stats["variants"]),
            "faults_fired": dict(self.stats["faults"]),
            "policies": dict(self.stats["policies"]),
            "probes": dict(self.stats["probes"]),
            "clauses_evaluated": dict(self.stats["clauses"]),
            "inconclusive": self.stats["inconclusive"],
            "real_components": check.REAL,
            "stub_components": check.STUB,
            "unseamed_rng_calls": simrandom.SIM.unscheduled if simrandom.SIM else None,
            "workers": self.workers,
            "known_findings_reported": self.known_lines,
        }
        cov.update({k: v for k, v in self.extra.items() if k not in ("dist_runs", "dist_distinct")})
        ev = {"property_id": self.cid, "tier": self.tier, "seed": self.seed, "level": "exploration",
              "coverage": cov, "assumptions": check.ASSUMPTIONS, "wall_s": round(wall, 3),
              "violations": n_violations}
        os.makedirs(EVIDENCE_DIR, exist_ok=True)
        with open(os.path.join(EVIDENCE_DIR, f"{self.cid}.json"), "w") as f:
            json.dump(ev, f, indent=1, sort_keys=True, default=str)
        return ev

    # -- default driver ------------------------------------------------------------------------
    def finish(self):
        unknown = self.process_failures()
        unknown += self.extra.get("custom_violations", 0)
        if not self.samples:
            self.collect_samples()
        self.close()
        ev = self.write_evidence(unknown)
        for l in self.known_lines:
            print(l)
        for l in self.violation_lines:
            print(l)
        c = ev["coverage"]
        print(f"{self.cid} tier={self.tier} seed={self.seed}: {c['evaluations']} runs, "
              f"{c['distinct_nontrivial']} distinct non-trivial, {self.stats['decisions']} decisions, "
              f"faults={dict(self.stats['faults'])}, inconclusive={self.stats['inconclusive']}, "
              f"violations={unknown}, wall={ev['wall_s']}s")
        if self.stats["n"] and self.stats["inconclusive"] >= self.stats["n"]:
            print("HARNESS: every run was inconclusive")
            return 2
        return 1 if unknown else 0


def _matching(ctx, clause, finding):
    for v in ctx.violations:
        if v.clause == clause and v.finding == finding:
            return v
    return None


# ------------------------------------------------------------------------------------------------
# replay and minimisation
# ------------------------------------------------------------------------------------------------
def replay_record(check, rec):
    return execute(check, rec["scenario"], rec.get("run_seed", 0), replay_streams=rec.get("streams", {}))


def reproduces(check, rec):
    ctx = replay_record(check, rec)
    return _matching(ctx, rec["clause"], rec.get("finding"))


def _stream_candidates(streams):
    """Smaller / simpler decision scripts."""
    for name in sorted(streams):
        s = streams[name]
        n = len(s)
        if n == 0:
            continue
        # truncations (the tail is answered with zeros)
        for cut in (0, n // 4, n // 2, (3 * n) // 4, n - 1):
            if cut < n:
                c = dict(streams)
                c[name] = s[:cut]
                yield c
        # zero blocks
        for a, b in ((0, n // 2), (n // 2, n)):
            if any(s[a:b]):
                c = dict(streams)
                c[name] = s[:a] + [0.0 if isinstance(x, float) else 0 for x in s[a:b]] + s[b:]
                yield c


def _stream_fine(streams, limit=60):
    k = 0
    for name in sorted(streams):
        s = streams[name]
        for i in range(len(s) - 1, -1, -1):
            if s[i]:
                c = dict(streams)
                c[name] = s[:i] + [0.0 if isinstance(s[i], float) else 0] + s[i + 1:]
                yield c
                k += 1
                if k >= limit:
                    return


def minimise(check, rec, max_exec=400, max_s=30.0):
    t_end = time.time() + max_s
    execs = 0
    best = dict(rec)
    # first make the record self-contained in replay mode
    m = reproduces(check, best)
    execs += 1
    if m is None:
        best["note"] = "scripted replay of the recorded streams did not reproduce; kept unminimised"
        return best
    best["detail"] = m.detail
    progress = True
    while progress and execs < max_exec and time.time() < t_end:
        progress = False
        cands = []
        if hasattr(check, "shrink"):
            try:
                for sc in check.shrink(best["scenario"]):
                    c = dict(best)
                    c["scenario"] = sc
                    cands.append(c)
            except Exception:
                pass
        for st in _stream_candidates(best["streams"]):
            c = dict(best)
            c["streams"] = st
            cands.append(c)
        for c in cands:
            if execs >= max_exec or time.time() > t_end:
                break
            execs += 1
            try:
                m = reproduces(check, c)
            except HarnessError:
                m = None
            except Exception:
                m = None
            if m is not None:
                c["detail"] = m.detail
                best = c
                progress = True
                break
    for st in _stream_fine(best["streams"]):
        if execs >= max_exec or time.time() > t_end:
            break
        c = dict(best)
        c["streams"] = st
        execs += 1
        try:
            m = reproduces(check, c)
        except Exception:
            m = None
        if m is not None:
            c["detail"] = m.detail
            best = c
    # normalise: store what the final replay actually consumed
    ctx = replay_record(check, best)
    best["streams"] = ctx.streams()
    best["minimised"] = True
    best["minimiser_executions"] = execs
    return best


def verify_fresh(cid, path, clause):
    env = dict(os.environ)
    env.pop("PYTHONHASHSEED", None)         # the replay re-executes under the hash seed recorded in the file
    env.pop("VERIF_HASHSEED", None)
    try:
        p = subprocess.run([sys.executable, "-m", "sim.check", cid, "--replay", path], cwd=VERIF_DIR,
                           env=env, capture_output=True, text=True, timeout=300)
    except subprocess.TimeoutExpired:
        return False, "fresh replay timed out"
    with open(path) as f:
        rec = json.load(f)
    want = f"REPLAYED clause={clause} detail={rec['detail']}"
    for line in p.stdout.splitlines():
        if line.strip() == want.strip():
            return True, "reproduced identically in a fresh interpreter"
    return False, f"exit={p.returncode} stdout={p.stdout[-300:]!r} stderr={p.stderr[-300:]!r}"


def do_replay(cid, path):
    check = load_check(cid)
    with open(path) as f:
        rec = json.load(f)
    if rec.get("kind", "run") != "run":
        return check.replay_custom(rec)
    ctx = replay_record(check, rec)
    hit = _matching(ctx, rec["clause"], rec.get("finding"))
    for v in ctx.violations:
        print(f"REPLAYED clause={v.clause} detail={v.detail}")
    if hit is None and not ctx.violations:
        print("REPLAY: no violation")
        return 0
    print(f"VIOLATION property={cid} replay={path}")
    return 1


def load_known():
    try:
        with open(KNOWN_FILE) as f:
            return json.load(f)
    except FileNotFoundError:
        return {"open": [], "fixed": []}
