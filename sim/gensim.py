"""Generator simulation shared by C01, C02 (and C03's observation): scenario builder, instrumented
callbacks, execution of the three generator types under a decision stream with fault plans."""
from numbers import Integral
from collections import Counter

from gcmpy.gcm_algorithm.gcm_algorithm_fast import GCMAlgorithmFast
from gcmpy.gcm_algorithm.gcm_algorithm_network import GCMAlgorithmNetwork
from gcmpy.gcm_algorithm.gcm_algorithm_custom_motifs import GCMAlgorithmCustomMotifs
from gcmpy.gcm_algorithm.gcm_algorithm_main import GCMAlgorithmMain
from gcmpy.names.gcm_algorithm_names import GCMAlgorithmNames
from gcmpy.names.network_names import NetworkNames
from gcmpy.motif_generators.clique_motif import clique_motif
from gcmpy.motif_generators.cycle_motif import cycle_motif
from gcmpy.motif_generators.diamond_motif import diamond_motif

from .simrandom import SimFault
from .engine import describe_exc
from . import interesting

SHUFFLES = ("uniform", "identity", "reverse", "rot", "adjswap", "sorted_blocks")


# ------------------------------------------------------------------------------------------------
# motif shapes
# ------------------------------------------------------------------------------------------------
def shape_edges(kind, size):
    """Index pairs of a custom shape on `size` vertices."""
    if kind == "star":
        return [[0, i] for i in range(1, size)]
    if kind == "path":
        return [[i, i + 1] for i in range(size - 1)]
    if kind == "single":
        return [[0, 1]]
    if kind == "empty":
        return []
    if kind == "clique":
        return [[i, j] for i in range(size) for j in range(i + 1, size)]
    if kind == "cycle":
        return [[i, i + 1] for i in range(size - 1)] + [[0, size - 1]]
    if kind == "diamond":
        return [[0, 1], [1, 2], [2, 3], [0, 3], [0, 2], [1, 3]]
    raise ValueError(kind)


def big_size(prng):
    """Unusually large motif / orbit size (numeric edge cases live there: e.g. s * (1.0 / s) < 1 first at s = 49)."""
    return prng.choice((prng.randrange(7, 33), prng.randrange(33, 140), prng.choice((49, 64, 98, 100, 103, 107, 128, 161, 187)),
                        interesting.size(prng, 7, 1025)))     # incl. 255..258 (small-int cache), 511..513, 1023..1025


def pick_fast_motif(prng, shape_focus=False):
    r = prng.random()
    if prng.random() < 0.04:
        return {"kind": prng.choice(("star", "path", "cycle")), "size": big_size(prng)}
    if shape_focus:
        # C02: stress the number of edges a callback returns
        k = prng.choice(("single", "two", "clique", "cycle", "star", "path", "diamond", "lib_clique2", "empty"))
    else:
        k = prng.choice(("lib_clique", "lib_clique", "lib_cycle", "lib_diamond", "star", "path", "single",
                         "clique", "lib_clique2", "empty" if r < 0.3 else "lib_clique"))
    if prng.random() < 0.06:
        # a builder whose NUMBER of edges depends on the vertices it is given: the simple-graph clique (a vertex drawn twice
        # contributes once, so self-loops and parallel edges are dropped)
        return {"kind": "simple_clique", "size": prng.randrange(2, 5)}
    if k == "lib_clique":
        return {"kind": "lib_clique", "size": prng.randrange(2, 6)}
    if k == "lib_clique2":
        return {"kind": "lib_clique", "size": 2}
    if k == "lib_cycle":
        return {"kind": "lib_cycle", "size": prng.randrange(2, 7)}      # size 2: cycle_motif returns a double edge
    if k == "lib_diamond":
        return {"kind": "lib_diamond", "size": 4}
    if k == "single":
        return {"kind": "single", "size": 2}
    if k == "two":
        return {"kind": "path", "size": 3}
    if k == "empty":
        return {"kind": "empty", "size": 1}
    if k == "diamond":
        return {"kind": "diamond", "size": 4}
    if k == "clique":
        return {"kind": "clique", "size": prng.randrange(2, 5)}
    if k == "cycle":
        return {"kind": "cycle", "size": prng.randrange(3, 6)}
    return {"kind": k, "size": prng.randrange(2, 6)}


CUSTOM_CATALOGUE = [
    # (orbits, edges as index pairs over the flat vertex list, return style)
    {"tag": "bare2", "orbits": [2], "edges": [[0, 1]], "ret": "bare"},
    {"tag": "bare11", "orbits": [1, 1], "edges": [[0, 1]], "ret": "bare"},
    {"tag": "one_in_tuple", "orbits": [2], "edges": [[0, 1]], "ret": "tuple"},
    {"tag": "one_in_list", "orbits": [2], "edges": [[0, 1]], "ret": "list"},
    {"tag": "two_path", "orbits": [3], "edges": [[0, 1], [1, 2]], "ret": "tuple"},
    {"tag": "two_path_orbits", "orbits": [1, 2], "edges": [[0, 1], [0, 2]], "ret": "list"},
    {"tag": "triangle", "orbits": [3], "edges": [[0, 1], [0, 2], [1, 2]], "ret": "tuple"},
    {"tag": "diamond", "orbits": [2, 2], "edges": [[0, 1], [1, 2], [2, 3], [3, 1], [0, 2]], "ret": "tuple"},
    {"tag": "pentagon", "orbits": [2, 2, 1], "edges": [[0, 1], [1, 2], [2, 3], [3, 4], [0, 4], [1, 3]], "ret": "tuple"},
    {"tag": "star4", "orbits": [1, 3], "edges": [[0, 1], [0, 2], [0, 3]], "ret": "list"},
    {"tag": "square", "orbits": [4], "edges": [[0, 1], [1, 2], [2, 3], [0, 3]], "ret": "list"},
    # motifs whose edges are NOT a set of distinct vertex pairs (multi-edges / self-loops inside a motif are legal
    # callback outputs: the library's own cycle_motif([a, b]) returns the double edge)
    {"tag": "double_edge", "orbits": [2], "edges": [[0, 1], [0, 1]], "ret": "list"},
    {"tag": "double_edge_11", "orbits": [1, 1], "edges": [[0, 1], [1, 0]], "ret": "tuple"},
    {"tag": "loop_and_edge", "orbits": [2], "edges": [[0, 0], [0, 1]], "ret": "tuple"},
    {"tag": "triple_on_two", "orbits": [2], "edges": [[0, 1], [1, 0], [0, 1]], "ret": "list"},
    {"tag": "loop_only", "orbits": [1], "edges": [[0, 0]], "ret": "list"},
    {"tag": "two_loops", "orbits": [1], "edges": [[0, 0], [0, 0]], "ret": "tuple"},
    {"tag": "tri_with_double", "orbits": [3], "edges": [[0, 1], [0, 1], [1, 2], [0, 2]], "ret": "tuple"},
]


def _distribute(prng, total, n, skew):
    """Distribute `total` stubs over n vertices."""
    col = [0] * n
    if skew == "one":
        hubs = [prng.randrange(n)]
    elif skew == "few":
        hubs = [prng.randrange(n) for _ in range(max(1, n // 3))]
    else:
        hubs = list(range(n))
    for _ in range(total):
        col[prng.choice(hubs)] += 1
    return col


RECIPROCAL_INEXACT = (49, 98, 103, 107, 161, 187, 196, 197)      # integers s with s * (1.0 / s) != 1.0


def gen_scale_scenario(prng, index):
    """One generation at scale: a single custom motif (star) with a large orbit and 2e4-4e4 instances, i.e. a column of
    1-7 million stubs spread evenly over 2000 vertices.  Numeric shortcuts (reciprocals, epsilons, float counts) that are
    exact on every small input go wrong only here."""
    k = prng.choice(RECIPROCAL_INEXACT[:4] + (50, 64, 100))
    count = prng.randrange(22000, 34000)
    n = 2000
    total = k * count
    col = [total // n + (1 if v < total % n else 0) for v in range(n)]
    spec = {"tag": f"scale-star-{k}", "orbits": [k], "edges": [[0, i] for i in range(1, k)], "ret": "list",
            "names": [f"e{i}" for i in range(k - 1)], "names_ret": "tuple"}
    return {"variant": "clean", "algo": "motifs", "via": prng.choice(("direct", "factory")), "rows": "tuple", "n": n,
            "motifs": [spec], "jds": [[c] for c in col], "policy": {"shuffle": ["uniform"]}, "faults": [], "repeat": 1,
            "scale": True}


def gen_scenario(prng, tier, index, focus):
    # thorough tier only: a generation at scale costs ~30 s; the quick tier does not reach million-stub inputs
    if focus == "C01" and tier == "thorough" and index % 16000 in (1, 2, 3):
        return gen_scale_scenario(prng, index)
    big = tier == "thorough" or prng.random() < 0.08   # swarm: some large inputs in every tier
    huge = big and prng.random() < 0.3
    variant = "faults" if index % 3 == 2 else "clean"
    algo = prng.choice(("fast", "network", "motifs", "motifs") if focus == "C02" else ("fast", "network", "motifs"))
    n = prng.randrange(1, 41 if big else 13)
    if prng.random() < 0.03:
        n = interesting.size(prng, 1, 1025)                 # boundary vertex counts (most vertices then have degree zero)
    many_tops = prng.random() < 0.03
    sc = {"variant": variant, "algo": algo, "via": prng.choice(("direct", "factory")),
          "rows": prng.choice(("tuple", "tuple", "list", "list", "np_int64", "np_array", "np_int8", "np_uint8_array")), "n": n}
    cols = []
    if algo in ("fast", "network"):
        ntop = prng.randrange(1, 5) if not many_tops else prng.randrange(5, 10)
        topos = []
        names_pool = ["2-clique", "3-clique", "t-a", "cycle", "2-clique-blue", "x", "3-clique"]
        for k in range(ntop):
            m = pick_fast_motif(prng, shape_focus=(focus == "C02"))
            same_name = prng.random() < 0.15 and k > 0
            m["name"] = topos[0]["name"] if same_name else f"{prng.choice(names_pool)}#{k}"
            topos.append(m)
            count = prng.randrange(0, 5 if not big else (9 if not huge else 40))
            if prng.random() < 0.02 and m["size"] <= 6:
                count = interesting.size(prng, 5, 342)      # boundary motif counts / a vertex of very high degree
            cols.append(_distribute(prng, count * m["size"], n, prng.choice(("all", "few", "one"))))
        sc["topos"] = topos
    else:
        nm = prng.randrange(1, 4) if not many_tops else prng.randrange(4, 8)
        motifs = []
        for j in range(nm):
            spec = dict(prng.choice(CUSTOM_CATALOGUE))
            if focus == "C02" and prng.random() < 0.5:
                spec = dict(prng.choice(CUSTOM_CATALOGUE[:6] + CUSTOM_CATALOGUE[-7:]))
            if prng.random() < 0.06:
                # a motif with one unusually large orbit (optionally a small hub orbit in front of or behind it)
                k = big_size(prng)
                lay = prng.choice(("single", "hub_first", "hub_last"))
                orbits = {"single": [k], "hub_first": [1, k], "hub_last": [k, 1]}[lay]
                tot = sum(orbits)
                hub = 0 if lay != "hub_last" else tot - 1
                spec = {"tag": f"big-{lay}-{k}", "orbits": orbits,
                        "edges": [[hub, i] for i in range(tot) if i != hub], "ret": prng.choice(("tuple", "list"))}
            ne = len(spec["edges"])
            if spec["ret"] == "bare":
                spec["names"] = f"n{j}"
            elif prng.random() < 0.5:
                spec["names"] = [f"m{j}"] * ne
            else:
                spec["names"] = [f"m{j}e{i}" for i in range(ne)]
            spec["names_ret"] = prng.choice(("tuple", "list"))
            if prng.random() < 0.1:
                spec["np_ids"] = True
            motifs.append(spec)
            count = prng.randrange(0, 5 if not big else (8 if not huge else 30))
            for osz in spec["orbits"]:
                cols.append(_distribute(prng, count * osz, n, prng.choice(("all", "few", "one"))))
        sc["motifs"] = motifs
    share = None
    if algo in ("fast", "network") and prng.random() < 0.10:
        # RAW library builders: the generator is handed the library's own clique_motif / cycle_motif / diamond_motif OBJECTS
        # (as the suite and every user does), not instrumented wrappers - anything keyed on the identity of the callable
        # only shows here.  No callback log exists then; the oracle is structural (evaluate_raw).
        ntop = prng.randrange(1, 4)
        topos, cols = [], []
        for k in range(ntop):
            kind = prng.choice(("lib_clique", "lib_clique", "lib_cycle", "lib_diamond"))
            size = 4 if kind == "lib_diamond" else prng.choice((2, 2, 3, 3, 4, 5)) if kind == "lib_clique" else prng.randrange(3, 7)
            topos.append({"kind": kind, "size": size, "name": f"{prng.choice(('2-clique', '3-clique', 'cycle', 't'))}#{k}"})
            count = prng.randrange(0, 6 if not big else 12)
            cols.append(_distribute(prng, count * size, n, prng.choice(("all", "few"))))
        sc["topos"] = topos
        sc["raw_builders"] = True
    elif n >= 4 and prng.random() < 0.12:
        # two types share the SAME build-callable object (as the suite itself does with clique_motif); they are told
        # apart by vertex support: the first type's stubs live on the lower half of the vertices, the second's on the upper
        half = n // 2
        if algo in ("fast", "network") and len(topos) >= 2:
            i, j = 0, 1
            topos[j]["kind"], topos[j]["size"] = topos[i]["kind"], topos[i]["size"]
            if topos[j]["name"] == topos[i]["name"]:
                topos[j]["name"] = topos[j]["name"] + "-b"
            cnt_i, cnt_j = prng.randrange(1, 4), prng.randrange(1, 4)
            lo = _distribute(prng, cnt_i * topos[i]["size"], half, "all") + [0] * (n - half)
            hi = [0] * half + _distribute(prng, cnt_j * topos[j]["size"], n - half, "all")
            cols[i], cols[j] = lo, hi
            share = {"types": [i, j], "split": half}
        elif algo == "motifs" and len(motifs) >= 2:
            i, j = 0, 1
            keep_names = motifs[j]["names"]
            motifs[j] = dict(motifs[i])
            ne = len(motifs[j]["edges"])
            motifs[j]["names"] = (keep_names if isinstance(keep_names, str) == isinstance(motifs[i]["names"], str) and (isinstance(keep_names, str) or len(keep_names) == ne)
                                  else ("n-b" if isinstance(motifs[i]["names"], str) else [f"b{t}" for t in range(ne)]))
            if motifs[j]["names"] == motifs[i]["names"]:
                motifs[j]["names"] = "n-b" if isinstance(motifs[i]["names"], str) else [f"b{t}" for t in range(ne)]
            # rebuild ALL columns: type i on the lower half, type j on the upper half, the others anywhere
            cols = []
            for t, m in enumerate(motifs):
                cnt = prng.randrange(1, 4)
                for osz in m["orbits"]:
                    if t == i:
                        cols.append(_distribute(prng, cnt * osz, half, "all") + [0] * (n - half))
                    elif t == j:
                        cols.append([0] * half + _distribute(prng, cnt * osz, n - half, "all"))
                    else:
                        cols.append(_distribute(prng, cnt * osz, n, "all"))
            share = {"types": [i, j], "split": half}
    if share:
        sc["shared_builder"] = share
    sc["jds"] = [[c[v] for c in cols] for v in range(n)]
    nsh = len(cols)
    sc["policy"] = {"shuffle": [prng.choice(SHUFFLES) if prng.random() < 0.6 else "uniform" for _ in range(nsh)]}
    sc["faults"] = []
    sc["repeat"] = 1
    if variant == "faults":
        sc["repeat"] = 2
        kind = prng.choice(("callback_raise", "abort_at_decision", "both", "abort_at_line", "abort_at_line"))
        if sc.get("raw_builders") and kind in ("callback_raise", "both"):
            kind = "abort_at_decision"              # no wrapper to fail in
        if kind in ("callback_raise", "both"):
            sc["faults"].append({"kind": "callback_raise", "at": prng.randrange(0, 6)})
        if kind in ("abort_at_decision", "both"):
            sc["faults"].append({"kind": "abort_at_decision", "at": prng.randrange(0, 12)})
        if kind == "abort_at_line":
            sc["faults"].append({"kind": "abort_at_line", "at": prng.choice((prng.randrange(0, 40), prng.randrange(0, 400)))})
    elif prng.random() < 0.25:
        sc["repeat"] = 2  # plain reuse of one generator object
    if sc["repeat"] == 2 and n >= 2 and not sc.get("shared_builder") and prng.random() < 0.5:
        # the second generation on the same generator object gets DIFFERENT content: the rows permuted (column sums, hence
        # handshake consistency, unchanged) - half of the time by editing the caller's list object in place.  A result that
        # still reflects the first sequence (anything memoised per object) only shows then.
        perm = list(range(n))
        prng.shuffle(perm)
        sc["round2"] = {"perm": perm, "in_place": prng.random() < 0.5}
    return sc


# ------------------------------------------------------------------------------------------------
# instrumented callbacks
# ------------------------------------------------------------------------------------------------
def norm_edges(ret):
    """A build callback's return value as a list of pairs (a bare pair of ints is one edge)."""
    if isinstance(ret, (tuple, list)) and len(ret) == 2 and all(isinstance(x, Integral) for x in ret):
        return [tuple(ret)]
    return [tuple(e) for e in ret]


class Recorder:
    def __init__(self):
        self.log = []
        self.names_calls = Counter()
        self.fail_at = None
        self.fired = 0
        self.seq = 0

    def reset(self):
        self.log = []
        self.names_calls = Counter()
        self.seq = 0

    def build(self, j, fn):
        def cb(vertices):
            seq = self.seq
            self.seq += 1
            entry = {"seq": seq, "topo": j, "args": list(vertices), "ret": None}
            self.log.append(entry)
            if self.fail_at is not None and seq == self.fail_at:
                self.fail_at = None
                self.fired += 1
                raise SimFault(f"injected failure of build callback invocation {seq}")
            ret = fn(vertices)
            entry["ret"] = ret
            return ret
        cb.__name__ = f"build_{j}"
        return cb

    def build_shared(self, types, split, fn):
        """ONE callable object for two types; the type of an invocation is read off its arguments' vertex support."""
        lo, hi = types

        def cb(vertices):
            seq = self.seq
            self.seq += 1
            args = list(vertices)
            j = lo if all(isinstance(a, Integral) and a < split for a in args) else hi
            entry = {"seq": seq, "topo": j, "args": args, "ret": None}
            self.log.append(entry)
            if self.fail_at is not None and seq == self.fail_at:
                self.fail_at = None
                self.fired += 1
                raise SimFault(f"injected failure of build callback invocation {seq}")
            ret = fn(vertices)
            entry["ret"] = ret
            return ret
        cb.__name__ = f"build_shared_{lo}_{hi}"
        return cb

    def names(self, j, value, style):
        def cb():
            self.names_calls[j] += 1
            if isinstance(value, str):
                return value
            return tuple(value) if style == "tuple" else list(value)
        return cb


def _shape_fn(edges, ret, np_ids=False):
    def fn(vs):
        if np_ids:
            import numpy as np
            vs = [np.int64(v) for v in vs]           # a numpy-style builder: the ids it returns are numpy integers
        es = [(vs[a], vs[b]) for a, b in edges]
        if ret == "bare":
            return es[0]
        return tuple(es) if ret == "tuple" else es
    return fn


def _simple_clique(vs):
    ds = sorted(set(vs))
    return [(ds[i], ds[j]) for i in range(len(ds)) for j in range(i + 1, len(ds))]


def build_params(sc, rec):
    p = {}
    if sc["algo"] in ("fast", "network"):
        sizes, fns, names = [], [], []
        for k, m in enumerate(sc["topos"]):
            sizes.append(m["size"])
            names.append(m["name"])
            if m["kind"] == "lib_clique":
                f = clique_motif
            elif m["kind"] == "lib_cycle":
                f = cycle_motif
            elif m["kind"] == "lib_diamond":
                f = diamond_motif
            elif m["kind"] == "simple_clique":
                f = _simple_clique
            else:
                f = _shape_fn(shape_edges(m["kind"], m["size"]), "list")
            fns.append(f if sc.get("raw_builders") else rec.build(k, f))
        sh = sc.get("shared_builder")
        if sh:
            i, j = sh["types"]
            m = sc["topos"][i]
            f = ({"lib_clique": clique_motif, "lib_cycle": cycle_motif, "lib_diamond": diamond_motif, "simple_clique": _simple_clique}.get(m["kind"])
                 or _shape_fn(shape_edges(m["kind"], m["size"]), "list"))
            fns[i] = fns[j] = rec.build_shared([i, j], sh["split"], f)
        p[GCMAlgorithmNames.MOTIF_SIZES] = sizes
        p[GCMAlgorithmNames.BUILD_FUNCTIONS] = fns
        p[GCMAlgorithmNames.EDGE_NAMES] = names
    else:
        sizes, fns, names, indices = [], [], [], []
        col = 0
        for j, m in enumerate(sc["motifs"]):
            idx = []
            for osz in m["orbits"]:
                sizes.append(osz)
                idx.append(col)
                col += 1
            indices.append(idx)
            fns.append(rec.build(j, _shape_fn(m["edges"], m["ret"], m.get("np_ids", False))))
            names.append(rec.names(j, m["names"], m.get("names_ret", "tuple")))
        sh = sc.get("shared_builder")
        if sh:
            i, j = sh["types"]
            m = sc["motifs"][i]
            fns[i] = fns[j] = rec.build_shared([i, j], sh["split"], _shape_fn(m["edges"], m["ret"]))
        p[GCMAlgorithmNames.MOTIF_SIZES] = sizes
        p[GCMAlgorithmNames.BUILD_FUNCTIONS] = fns
        p[GCMAlgorithmNames.EDGE_NAMES] = names
        p[GCMAlgorithmNames.MOTIF_INDICES] = indices
    return p


def construct(sc, params):
    algo = sc["algo"]
    if sc["via"] == "factory":
        params = dict(params)
        params[GCMAlgorithmNames.GCM_TYPE] = {"fast": "fast", "network": "network", "motifs": "motifs"}[algo]
        return GCMAlgorithmMain.load_gcm_algorithm(params)
    cls = {"fast": GCMAlgorithmFast, "network": GCMAlgorithmNetwork, "motifs": GCMAlgorithmCustomMotifs}[algo]
    return cls(params)


def make_jds(sc):
    """The caller's sequence in the representation the scenario asks for: rows as tuples or lists of Python ints, as tuples of
    numpy int64 scalars (degrees that come out of numpy code), or the whole sequence as a list of numpy rows."""
    if sc["rows"] == "tuple":
        return [tuple(r) for r in sc["jds"]]
    tiny = all(max(r, default=0) <= 127 for r in sc["jds"])
    if sc["rows"] == "np_int8" and tiny:
        # narrow dtypes (degree tables stored compactly): every DEGREE fits, column sums need not - the library never has to
        # add degrees in their own dtype, and must not
        import numpy as np
        return [tuple(np.int8(x) for x in r) for r in sc["jds"]]
    if sc["rows"] == "np_uint8_array" and sc["jds"] and all(max(r, default=0) <= 255 for r in sc["jds"]):
        import numpy as np
        return [np.array(r, dtype=np.uint8) for r in sc["jds"]]
    small = all(max(r, default=0) < 2 ** 31 for r in sc["jds"])         # column sums of int64 degrees must stay far below 2^63
    if sc["rows"] == "np_int64" and small:
        import numpy as np
        return [tuple(np.int64(x) for x in r) for r in sc["jds"]]
    if sc["rows"] == "np_array" and sc["jds"] and small:
        import numpy as np
        return [np.array(r, dtype=np.int64) for r in sc["jds"]]
    return [list(r) for r in sc["jds"]]


# ------------------------------------------------------------------------------------------------
# expected quantities
# ------------------------------------------------------------------------------------------------
def layout(sc):
    """Per motif/topology j: list of (column, size) slots in argument order, and expected count."""
    jds = sc["jds"]
    colsum = [sum(r[c] for r in jds) for c in range(len(jds[0]))] if jds else []
    out = []
    if sc["algo"] in ("fast", "network"):
        for k, m in enumerate(sc["topos"]):
            tot = colsum[k] if jds else 0
            out.append({"slots": [(k, m["size"])], "count": tot // m["size"]})
    else:
        col = 0
        for j, m in enumerate(sc["motifs"]):
            slots = []
            for osz in m["orbits"]:
                slots.append((col, osz))
                col += 1
            tot = colsum[slots[0][0]] if jds else 0
            out.append({"slots": slots, "count": tot // slots[0][1]})
    return out


def observe(sc, res):
    """Uniform view of a generator result: ('list', edges, topologies, ids, jds) or ('net', G)."""
    if sc["algo"] == "network":
        return {"kind": "net", "G": res.G}
    return {"kind": "list", "edges": res.edge_list, "tops": res.topologies, "ids": res.motif_id,
            "jds": res.joint_degrees}


def run_generation(sc, ctx, on_result):
    """Drive `repeat` generations on one generator object with the scenario's fault plan.
    on_result(round, status, result_or_exc, recorder, faulted_before) evaluates the oracles."""
    rec = Recorder()
    params = build_params(sc, rec)
    src = ctx.source("gen", sc.get("policy"))
    try:
        algo = construct(sc, params)
    except Exception as e:
        on_result(0, "construct_raised", e, rec, False)
        return
    faults = list(sc.get("faults", []))
    faulted = False
    sc0, held = sc, None
    for rnd in range(sc.get("repeat", 1)):
        sc = sc0
        if rnd > 0 and sc0.get("round2"):
            sc = dict(sc0, jds=[sc0["jds"][i] for i in sc0["round2"]["perm"]])
            ctx.probe("second_generation_with_permuted_rows")
        rec.reset()
        abort_at = None
        abort_line = None
        if rnd == 0:
            for f in faults:
                if f["kind"] == "callback_raise":
                    rec.fail_at = f["at"]
                elif f["kind"] == "abort_at_decision":
                    abort_at = f["at"]
                elif f["kind"] == "abort_at_line":
                    abort_line = f["at"]
        else:
            rec.fail_at = None
        jds = make_jds(sc)
        if sc0.get("round2", {}).get("in_place"):
            if held is None:
                held = jds
            else:
                held[:] = jds               # the caller's own list object, edited in place
                jds = held
        before = [tuple(r) for r in jds]
        types_before = [type(r) for r in jds]
        st, val = ctx.call(src, algo.random_clustered_graph, jds, abort_at=abort_at, abort_at_line=abort_line,
                           budget=200000 if not sc.get("scale") else None, label=f"generate[{sc['algo']}]")
        if st == "fault":
            ctx.fault("callback_raise")
        rec.fail_at = None
        on_result(rnd, st, val, rec, faulted, jds=jds, before=before, types_before=types_before, scr=sc)
        if st in ("fault", "abort"):
            faulted = True


LIB = {"lib_clique": clique_motif, "lib_cycle": cycle_motif, "lib_diamond": diamond_motif}


def evaluate_raw(sc, ctx, st, val, P, reuse, jds, before, types_before):
    """Oracle for raw-builder scenarios (no callback log): the output alone must be explainable as `count` instances
    per topology, each equal to builder(vs) for some vertex tuple vs, the vs of a topology using every vertex exactly
    jds[v][k] times, every instance under its own motif id and its topology's name."""
    C01 = P == "C01"
    tag = " (generation after a fault on the same object)" if reuse else ""
    if st == "raised":
        ctx.violate(f"{P}.raised", f"generator raised {describe_exc(val)} with the library's own builders{tag}")
        return 0
    if st != "ok":
        return 0
    n = sc["n"]
    lay = layout(sc)
    tmpl = [norm_edges(LIB[m["kind"]](list(range(m["size"])))) for m in sc["topos"]]
    name_to = {m["name"]: k for k, m in enumerate(sc["topos"])}
    try:
        obs = observe(sc, val)
    except Exception as e:
        ctx.violate(f"{P}.raised", f"result of type {type(val).__name__} is not the documented object: {describe_exc(e)}")
        return 0
    ctx.probe("raw_library_builders")
    c_cols, c_groups = ("emitted", "emitted") if C01 else ("columns", "groups")
    ctx.check(f"{P}.{c_cols}"); ctx.check(f"{P}.{c_groups}")
    if obs["kind"] == "list":
        edges, tops, ids = obs["edges"], obs["tops"], obs["ids"]
        if not (len(edges) == len(tops) == len(ids)):
            ctx.violate(f"{P}.{c_cols}", f"column lengths differ: {len(edges)} edges, {len(tops)} names, {len(ids)} motif ids{tag}")
            return len(edges)
        groups = {}
        try:
            for e, t, i in zip(edges, tops, ids):
                groups.setdefault(i, []).append((tuple(e), t))
        except TypeError as ex:
            ctx.violate(f"{P}.{c_groups}", f"unusable entry: {ex}{tag}")
            return len(edges)
        per = Counter()
        use = [Counter() for _ in sc["topos"]]
        for gid, g in groups.items():
            names = {t for _, t in g}
            k = name_to.get(next(iter(names))) if len(names) == 1 else None
            if k is None:
                ctx.violate(f"{P}.{c_groups if C01 else 'names'}", f"entries sharing motif id {gid!r} carry the names {sorted(map(str, names))}: "
                                                                   f"not one instance of one topology{tag}")
                return len(edges)
            m, tp = sc["topos"][k], tmpl[k]
            if len(g) != len(tp):
                ctx.violate(f"{P}.{c_groups}", f"{len(g)} entries share motif id {gid!r} (topology {m['name']!r}); one instance of that "
                                               f"topology has {len(tp)} edges - distinct instances share an id or an instance is split{tag}")
                return len(edges)
            vs = [None] * m["size"]
            ok = True
            for (a, b), (ia, ib) in zip((e for e, _ in g), tp):
                for x, ix in ((a, ia), (b, ib)):
                    if vs[ix] is None:
                        vs[ix] = x
                    elif vs[ix] != x:
                        ok = False
            if not ok or any(v is None for v in vs):
                ctx.violate(f"{P}.{c_groups}", f"the entries under motif id {gid!r} ({[e for e, _ in g][:6]}) are not what the "
                                               f"{m['name']!r} builder returns for any {m['size']} vertices{tag}")
                return len(edges)
            per[k] += 1
            for v in vs:
                use[k][v] += 1
        for k, l in enumerate(lay):
            if not tmpl[k]:
                continue
            if C01:
                ctx.check(f"{P}.calls"); ctx.check(f"{P}.conservation")
            if per.get(k, 0) != l["count"]:
                ctx.violate(f"{P}.calls" if C01 else f"{P}.groups", f"topology {k} ({sc['topos'][k]['name']!r}, size {sc['topos'][k]['size']}): "
                            f"{per.get(k, 0)} motif instances emitted, {l['count']} required by the joint degree sequence{tag}")
                return len(edges)
            want = Counter({v: sc["jds"][v][k] for v in range(n) if sc["jds"][v][k]})
            if C01 and use[k] != want:
                ctx.violate(f"{P}.conservation", f"column {k}: stub slots occupied {sorted(use[k].items())[:8]} but joint degrees give "
                                                 f"{sorted(want.items())[:8]}{tag}")
                return len(edges)
        if C01:
            ctx.check(f"{P}.range"); ctx.check(f"{P}.jds")
            bad = [x for e in edges for x in e if not (isinstance(x, Integral) and 0 <= x < n)]
            if bad:
                ctx.violate(f"{P}.range", f"vertex {bad[0]!r} outside 0..{n - 1}{tag}")
            try:
                carried = [tuple(r) for r in obs["jds"]]
            except Exception:
                carried = None
            if carried != before:
                ctx.violate(f"{P}.jds", f"joint degrees carried by the result differ from the input by value{tag}")
        nres = len(edges)
    else:
        G = obs["G"]
        groups = {}
        for u, v, d in G.edges(data=True):
            groups.setdefault(d.get(NetworkNames.MOTIF_IDS), []).append((u, v, d.get(NetworkNames.TOPOLOGY)))
        for gid, g in groups.items():
            names = {t for _, _, t in g}
            k = name_to.get(next(iter(names))) if len(names) == 1 else None
            if k is None or len(g) > len(tmpl[k]):
                ctx.violate(f"{P}.{c_groups}", f"{len(g)} network edges share motif id {gid!r} with names {sorted(map(str, names))}: more than "
                                               f"one instance of one topology{tag}")
                return G.number_of_edges()
        if C01:
            ctx.check(f"{P}.jds")
            if sorted(G.nodes()) != list(range(n)):
                ctx.violate(f"{P}.jds", f"network has {G.number_of_nodes()} of {n} vertices{tag}")
            else:
                for v in range(n):
                    jd = G.nodes[v].get(NetworkNames.JOINT_DEGREE)
                    if jd is None or tuple(jd) != before[v]:
                        ctx.violate(f"{P}.jds", f"vertex {v} carries joint degree {jd!r}, input {before[v]}{tag}")
                        break
        nres = G.number_of_edges()
    if C01 and ([tuple(r) for r in jds] != before or [type(r) for r in jds] != types_before or len(jds) != n):
        ctx.violate(f"{P}.jds", f"the caller's joint degree sequence was modified{tag}")
    ctx.result(st, nres, sorted(per.items()) if obs["kind"] == "list" else len(groups))
    return nres


def multiset(xs):
    return Counter(xs)
