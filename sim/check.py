"""Entry point: python -m sim.check <ID> [--tier quick|thorough] [--replay path]

exit 0: property held on everything explored (KNOWN-FINDING lines possible)
exit 1: VIOLATION property=<id> replay=<path>
exit 2: harness error (never a pass, never a violation)
"""
import argparse
import os
import sys
import traceback


def main(argv=None):
    ap = argparse.ArgumentParser()
    ap.add_argument("id")
    ap.add_argument("--tier", default=os.environ.get("VERIF_TIER", "quick"), choices=["quick", "thorough"])
    ap.add_argument("--replay")
    ap.add_argument("--seed", type=int, default=None)
    ap.add_argument("--budget", type=float, default=None)
    ap.add_argument("--workers", type=int, default=None)
    ap.add_argument("--digests", type=int, default=None,
                    help="self-test: print the execution digest of the first N runs (through the pool), write nothing")
    a = ap.parse_args(argv)

    # String hash randomisation is a source of nondeterminism too: the interpreter's hash seed is derived from VERIF_SEED
    # (0 -> 0), so different seeds exercise different string-set / dict-collision orders while one seed stays exactly
    # repeatable.  A replay runs under the hash seed recorded in its file; VERIF_HASHSEED overrides (self-tests).
    want_hs = os.environ.get("VERIF_HASHSEED")
    if want_hs is None:
        if a.replay:
            try:
                import json
                want_hs = str(json.load(open(a.replay)).get("hashseed", 0))
            except Exception:
                want_hs = "0"
        else:
            vs = a.seed if a.seed is not None else int(os.environ.get("VERIF_SEED", "0") or 0)
            want_hs = str((vs * 2654435761) % 4294967295 if vs else 0)
    if os.environ.get("PYTHONHASHSEED") != want_hs:
        env = dict(os.environ)
        env["PYTHONHASHSEED"] = want_hs
        os.execve(sys.executable, [sys.executable, "-m", "sim.check"] + (argv or sys.argv[1:]), env)

    try:
        from . import engine
        engine.bootstrap()
        cid = a.id.upper()
        if a.replay:
            return engine.do_replay(cid, a.replay)
        seed = a.seed if a.seed is not None else int(os.environ.get("VERIF_SEED", "0") or 0)
        budget = a.budget if a.budget is not None else float(os.environ.get("VERIF_BUDGET_S", "0") or 0) or None
        eng = engine.Engine(cid, tier=a.tier, seed=seed, workers=a.workers, budget_s=budget)
        if a.digests:
            try:
                for idx, d in engine.digest_runs(eng, a.digests):
                    print(f"DIGEST {cid} {seed} {idx} {d}")
            finally:
                eng.close()
            return 0
        print(f"VERIF_SEED={seed} property={cid} tier={a.tier} workers={eng.workers} repo={engine.REPO}")
        try:
            if hasattr(eng.check, "main"):
                rc = eng.check.main(eng)
            else:
                n = eng.check.RUNS[a.tier]
                if a.tier == "thorough":
                    # rounds of quick-tier size, so that the wall budget is honoured to within one round
                    eng.search_for(budget or eng.check.RUNS.get("thorough_s", 300), eng.check.RUNS["quick"], max_runs=None)
                else:
                    eng.search(n)
                rc = eng.finish()
        finally:
            eng.close()
        return rc
    except SystemExit:
        raise
    except BaseException:
        traceback.print_exc()
        print("HARNESS-ERROR (exit 2): the check itself failed; this is neither a pass nor a violation")
        return 2


if __name__ == "__main__":
    sys.exit(main())
