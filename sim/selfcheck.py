"""setup_cmd: offline smoke test of the framework (imports, RNG seam, tripwire, tiny determinism check)."""
import os
import sys


def main():
    if os.environ.get("PYTHONHASHSEED") != "0":
        env = dict(os.environ)
        env["PYTHONHASHSEED"] = "0"
        os.execve(sys.executable, [sys.executable, "-m", "sim.selfcheck"], env)
    from . import engine
    engine.bootstrap()
    import random
    from . import simrandom
    assert random._inst is simrandom.SIM and random.shuffle.__self__ is simrandom.SIM
    built = sorted(f[:-3].upper() for f in os.listdir(os.path.join(os.path.dirname(__file__), "checks"))
                   if f.startswith("c") and f[1:3].isdigit() and f.endswith(".py"))
    for cid in built:
        check = engine.load_check(cid)
        d = []
        for rep in range(2):
            row = []
            for idx in range(3):
                rs, sc = engine.make_scenario(check, 12345, idx, "quick")
                row.append(engine.execute(check, sc, rs).digest())
            d.append(row)
        if d[0] != d[1]:
            print(f"selfcheck: {cid} is not deterministic in-process: {d}")
            return 2
    print(f"selfcheck ok: seam installed, gcmpy from {engine.REPO}, checks {built} deterministic in-process")
    return 0


if __name__ == "__main__":
    sys.exit(main())
