"""Oracle for C03: the exact configuration-model measure on motif placements of a tiny input, by
enumerating every stub permutation (the enumeration lives in the oracle; the system itself is explored
by seeded search)."""
from fractions import Fraction
from itertools import permutations, product
from math import factorial


def canon_instance(args, slots, symmetric):
    """args: flat argument list of one build invocation; slots: [(column, size)...]."""
    out = []
    pos = 0
    for _, s in slots:
        g = args[pos:pos + s]
        pos += s
        out.append(tuple(sorted(g)) if symmetric else tuple(g))
    return tuple(out)


def canon_placement(instances):
    return tuple(sorted(instances))


def enumeration_size(stub_lists):
    n = 1
    for s in stub_lists:
        n *= factorial(len(s))
    return n


def placement_distribution(stub_lists, slots, symmetric):
    """stub_lists[i]: stubs (vertex ids, repeated by degree) of the i-th slot's column.
    Every permutation of every column equally likely and independent; the m-th motif instance takes
    the m-th consecutive group of each column.  Returns {placement: Fraction}."""
    sizes = [s for _, s in slots]
    count = len(stub_lists[0]) // sizes[0] if sizes[0] else 0
    tally = {}
    total = 0
    for perms in product(*[permutations(s) for s in stub_lists]):
        inst = []
        for m in range(count):
            args = []
            for p, sz in zip(perms, sizes):
                args.extend(p[m * sz:(m + 1) * sz])
            inst.append(canon_instance(args, slots, symmetric))
        key = canon_placement(inst)
        tally[key] = tally.get(key, 0) + 1
        total += 1
    return {k: Fraction(v, total) for k, v in tally.items()}
