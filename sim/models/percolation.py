"""Reference model for C15 / C17: exact bond-percolation expectation on a motif by brute force over
all edge subsets, organised as integer counts so that it can be evaluated with any operand type."""
from functools import lru_cache


def component_counts(edges, focal):
    """{frozenset(component of focal): [number of edge subsets with k occupied edges, k=0..m]}.
    Pure function of (edges, focal): history-free by construction."""
    return _counts(tuple(sorted(tuple(sorted(e)) for e in edges)), focal)


@lru_cache(maxsize=4096)
def _counts(edges, focal):
    m = len(edges)
    out = {}
    for mask in range(1 << m):
        adj = {}
        k = 0
        for i in range(m):
            if mask >> i & 1:
                a, b = edges[i]
                adj.setdefault(a, []).append(b)
                adj.setdefault(b, []).append(a)
                k += 1
        comp = {focal}
        stack = [focal]
        while stack:
            x = stack.pop()
            for y in adj.get(x, ()):
                if y not in comp:
                    comp.add(y)
                    stack.append(y)
        key = frozenset(comp)
        row = out.get(key)
        if row is None:
            row = out[key] = [0] * (m + 1)
        row[k] += 1
    return out


def expectation(edges, focal, phi, u, one=1):
    """E over independent occupation (prob. phi per edge) of prod_{v in comp(focal), v != focal} u[v].
    Works for floats, Fractions, operands.Exact and operands.Poly (`one` sets the arithmetic type)."""
    counts = component_counts(edges, focal)
    m = len(edges)
    q = one - phi
    pw = [one]
    qw = [one]
    for _ in range(m):
        pw.append(pw[-1] * phi)
        qw.append(qw[-1] * q)
    total = one - one
    for comp, row in sorted(counts.items(), key=lambda kv: sorted(kv[0])):
        w = one - one
        for k, c in enumerate(row):
            if c:
                w = w + c * pw[k] * qw[m - k]
        prod = one
        for v in sorted(comp):
            if v != focal:
                prod = prod * u[v]
        total = total + w * prod
    return total
