"""Values at which behaviour tends to change.  Seeded search only finds what its scenario distribution reaches with
non-negligible probability (DESIGN §12.1: every unguided seeded change hid behind a value the generators never
produced), so every numeric scenario parameter should occasionally be drawn from here instead of from its usual small
range.  Nothing here is specific to one seeded change; the list is the usual suspects of integer / float / container
boundaries in CPython and IEEE arithmetic."""

# sizes / counts / lengths: small-int cache (-5..256), dict/set resize points (5, 8, 21, 32, 85 ...), list over-allocation,
# byte boundaries, first integers with s * (1.0 / s) != 1.0 (49, 98, 103, 107, 161, 187)
SIZES = (0, 1, 2, 3, 5, 6, 7, 8, 9, 15, 16, 17, 21, 22, 31, 32, 33, 49, 63, 64, 65, 85, 86, 98, 100, 103, 107, 127, 128, 129,
         161, 187, 255, 256, 257, 258, 341, 342, 511, 512, 513, 1000, 1023, 1024, 1025)

# magnitudes: float53 exactness, C long / size_t boundaries, float overflow of integer division
BIG_INTS = (2 ** 31 - 1, 2 ** 31, 2 ** 31 + 1, 2 ** 32 + 1, 10 ** 11 + 1, 2 ** 53 - 1, 2 ** 53, 2 ** 53 + 1, 2 ** 54 - 1, 10 ** 16 + 1,
            2 ** 63 - 1, 2 ** 63, 2 ** 64 + 3, 10 ** 19, 10 ** 30 + 7, 10 ** 310)

# probabilities / weights
FLOATS = (0.0, 5e-324, 2.0 ** -1074, 2.0 ** -53, 1e-300, 1e-17, 1e-9, 0.5, 1.0 - 2.0 ** -53, 1.0, 1.0 + 2.0 ** -52, 1e9, 1e300)

# vertex labels: the small-int cache boundary matters for identity-vs-equality slips; negative and huge labels for parsers
LABELS = (0, 1, 255, 256, 257, 258, 1000, 2 ** 31, 2 ** 63 + 5)


# CPython hashes an int n as n mod (2^61 - 1) (and -1 as -2): distinct labels with EQUAL hashes.  Anything keyed by the hash of
# a label, or of a set of labels, instead of by the label confuses such twins; no other value exposes that.
HASH_MODULUS = 2 ** 61 - 1


def hash_twins(prng, labels):
    """The label list with one label replaced by the hash twin (+ 2^61 - 1) of ANOTHER label of the list (non-negative ints
    only; unchanged if impossible).  The two then are different vertices with the same hash."""
    ints = [i for i, v in enumerate(labels) if isinstance(v, int) and not isinstance(v, bool) and v >= 0]
    if len(ints) < 2:
        return list(labels)
    i, j = prng.sample(ints, 2)
    twin = labels[i] + HASH_MODULUS
    if twin in labels:
        return list(labels)
    out = list(labels)
    out[j] = twin
    return out


_ATLAS = None


def atlas_graph(k):
    """k-th graph with at least one edge of the networkx graph atlas (all 1252 graphs with an edge on up to 7 vertices, in
    atlas order); None beyond the end.  Returned as (number of vertices, edge list)."""
    global _ATLAS
    if _ATLAS is None:
        import networkx as nx
        _ATLAS = [(g.number_of_nodes(), sorted(g.edges())) for g in nx.graph_atlas_g() if g.number_of_edges() > 0]
    return _ATLAS[k] if 0 <= k < len(_ATLAS) else None


ATLAS_FROM = 1000          # run indexes ATLAS_FROM .. ATLAS_FROM + 1251 of the cover checks walk through the atlas


def size(prng, lo=0, hi=None):
    c = [x for x in SIZES if x >= lo and (hi is None or x <= hi)]
    return prng.choice(c) if c else lo


def big_int(prng):
    return prng.choice(BIG_INTS)


def label_base(prng):
    return prng.choice(LABELS)


# attribute names that mean something to networkx / graph code: an implementation that starts honouring one of them
# ("weight" in degree(), "capacity" in flows, ...) changes behaviour only on graphs that happen to carry it
ATTR_NAMES = ("weight", "capacity", "label", "id", "name", "color", "key", "length", "cost", "pos", "type", "topology",
              "joint_degree", "motif_ids", "u", "clique", "CoverLabel")


def near(prng, x, lo=0.0, hi=1.0):
    """A value unequal to x but within float-comparison tolerances of it (1 ulp .. 1e-6 relative)."""
    import math
    y = prng.choice((math.nextafter(x, hi), math.nextafter(x, lo), x * (1 + 1e-12), x * (1 - 1e-9), x * (1 + 5e-8),
                     x * (1 - 9e-7), x + 1e-12, x - 1e-10, x + 3e-7))
    return min(hi, max(lo, y))
