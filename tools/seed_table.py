"""Print the DESIGN.md table rows for the seeded changes whose directory name matches a pattern (e.g. '-r6-')."""
import glob, json, os, sys
pat = sys.argv[1]
for d in sorted(glob.glob("/verif/seeded/*")):
    if pat not in os.path.basename(d):
        continue
    m = json.load(open(os.path.join(d, "meta.json")))
    fs = os.path.join(d, "full_suite_by_me.json")
    if os.path.exists(fs):
        f = json.load(open(fs))
        suite = "47 passed / 4 always-fail" if f.get("same_as_baseline") else f.get("summary", "?")
    else:
        suite = "pending"
    print(f"| `{m['name']}` | {m['property']} | {m['needs_to_manifest']} | {m['detected']['history']} | {suite} |")
