#!/bin/bash
# Regression over every stored sub-agent change: each must be detected (exit 1) by its property's check, in the tier
# recorded in its meta.json (thorough for the few that only show at scale).  usage: recheck_all_seeds.sh [pattern]
cd /verif
PAT=${1:-}
THOROUGH=" C01-r4-reciprocal-with-epsilon-at-scale C10-r4-clique-enumeration-capped-at-1e6 C10-r6-unbounded-cover-ignores-cliques-above-20 C09-r6-score-zero-tolerance-1e-6 C09-r8-score-zero-after-rounding-to-6-digits "
bad=0; n=0
OPEN=" "      # recorded misses (DESIGN 12.1): reported, not counted as failures
for d in seeded/*${PAT}*/; do
  name=$(basename $d)
  case "$OPEN" in *" $name "*) echo "open $name (recorded miss)"; continue;; esac
  tier=quick; case "$THOROUGH" in *" $name "*) tier=thorough;; esac
  chk=""
  # a change in a file that two properties are anchored in may be caught by the OTHER property's check (see its meta.json)
  case "$name" in C17-r10-edge-combinations-shared-by-could-be-isomorphic) chk=C15;; esac
  out=$(bash selftest/recheck_seed.sh $name "$chk" $tier 2>&1 | grep -v WARNING | head -1)
  n=$((n+1))
  case "$out" in *"exit=1"*) echo "ok   $out" | cut -c1-220;; *) echo "MISS $out" | cut -c1-220; bad=$((bad+1));; esac
done
echo "$((n-bad))/$n seeded changes detected"
exit $((bad>0))
