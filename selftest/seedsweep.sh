#!/bin/bash
# No-false-alarm sweep: every quick check under many VERIF_SEED values on the unchanged tree.
# Evidence/out go to a scratch directory so that committed evidence is never touched.
# usage: seedsweep.sh <first_seed> <last_seed> [checks...]   (default: all 13)
cd "$(dirname "$0")/.."
S=$(mktemp -d /tmp/gcmpy_sweep_XXXXXX)
export VERIF_EVIDENCE_DIR=$S/evidence VERIF_OUT_DIR=$S/out
bad=0; n=0
FIRST=${1:-2}; LAST=${2:-9}; shift 2 2>/dev/null
CHECKS=${@:-C01 C02 C03 C05 C09 C10 C11 C12 C13 C15 C17 C18 C20}
for seed in $(seq $FIRST $LAST); do
  for c in $CHECKS; do
    out=$(VERIF_SEED=$seed timeout 900 /venv/bin/python -m sim.check $c --tier quick 2>&1); rc=$?
    n=$((n+1))
    if [ $rc -ne 0 ] || echo "$out" | grep -q '^VIOLATION'; then
      bad=$((bad+1)); echo "ALARM seed=$seed $c rc=$rc"; echo "$out" | tail -6
      mkdir -p out/sweep_alarms; cp -r $S/out/replays out/sweep_alarms/seed${seed}_$c 2>/dev/null
    else
      echo "ok seed=$seed $c $(echo "$out" | tail -1 | sed 's/.*: //' | cut -c1-90)"
    fi
  done
done
rm -rf "$S"
echo "seedsweep: $n check runs, $bad alarm(s)"
[ $bad -eq 0 ]
