"""Mutants (must be caught) and behaviour-preserving variants (must not alarm).

Each entry: name, property, edits = [(path relative to the repo root, old text, new text)].
All mutants compile and keep the repository's 47 baseline tests green (they only assert sizes).
"""

FAST = "gcmpy/gcm_algorithm/gcm_algorithm_fast.py"
CUSTOM = "gcmpy/gcm_algorithm/gcm_algorithm_custom_motifs.py"
NETGEN = "gcmpy/gcm_algorithm/gcm_algorithm_network.py"
FACTORY = "gcmpy/gcm_algorithm/gcm_algorithm_factory.py"
E2N = "gcmpy/network/edge_list_to_network.py"
JD = "gcmpy/joint_degree/joint_degree.py"
EECC = "gcmpy/covers/eecc.py"
MPCC = "gcmpy/covers/mpcc.py"
MCMC = "gcmpy/tools/markov_chain_monte_carlo_rewiring.py"
DRAW = "gcmpy/tools/draw_set.py"
JEJD = "gcmpy/tools/joint_excess_joint_degree.py"
JED = "gcmpy/tools/joint_excess_degree.py"
AE = "gcmpy/message_passing/equations/automated_equation.py"
MP = "gcmpy/message_passing/message_passing.py"
BP = "gcmpy/tools/bond_percolate.py"

MUTANTS = [
    # ---- C01 ------------------------------------------------------------------------------
    dict(name="fast-drop-last-group", property="C01", edits=[(FAST,
         "for vertices in grouper(k_list, self._motif_sizes[k]):",
         "for vertices in list(grouper(k_list, self._motif_sizes[k]))[: max(1, len(k_list) // self._motif_sizes[k] - (len(k_list) > 40))]:")]),
    dict(name="fast-stub-off-by-one-for-high-degree", property="C01", edits=[(FAST,
         "list(chain.from_iterable(starmap(repeat, r)))",
         "list(chain.from_iterable(starmap(repeat, ((v, min(d, 3)) for v, d in r))))")]),
    dict(name="custom-count-from-last-orbit", property="C01", edits=[(CUSTOM,
         "kk: int = motif_indexes[0]", "kk: int = motif_indexes[-1]"),
        (CUSTOM, "num_motifs = (0.0 + len(stubs[kk])) / self._motif_sizes[kk]",
         "num_motifs = (0.0 + len(stubs[kk])) / self._motif_sizes[motif_indexes[0]]")]),
    dict(name="network-drops-last-topology-when-three", property="C01", edits=[(NETGEN,
         "params[GCMAlgorithmNames.MOTIF_SIZES] = self._motif_sizes",
         "params[GCMAlgorithmNames.MOTIF_SIZES] = self._motif_sizes if len(self._motif_sizes) < 3 else self._motif_sizes[:2] + [1]")]),
    dict(name="factory-network-returns-fast", property="C01", edits=[(FACTORY,
         "return GCMAlgorithmNetwork(params)", "return GCMAlgorithmFast(params)")]),
    dict(name="fast-jds-copy-truncated", property="C01", edits=[(FAST,
         "EdgeList.joint_degrees = jds", "EdgeList.joint_degrees = [tuple(j) for j in jds if sum(j) > 0]")]),
    dict(name="custom-state-kept-across-calls", property="C01", edits=[(CUSTOM,
         "        self._motif_indices: list = []\n", "        self._motif_indices: list = []\n        self._leftover: list = []\n"),
        (CUSTOM, "        partitions: list[list] = []\n", "        partitions: list[list] = self._leftover\n")]),
    dict(name="revert-fix-zero-degree-nodes", property="C01", edits=[(E2N,
         "        model.G.add_nodes_from(range(len(edgelist.joint_degrees)))\n", "")]),
    # ---- C02 ------------------------------------------------------------------------------
    dict(name="revert-fix-bare-edge", property="C02", edits=[(CUSTOM,
         "if len(es) == 2 and not isinstance(es[0], (tuple, list)):", "if len(es) == 2:")]),
    dict(name="fast-id-per-topology", property="C02", edits=[(FAST,
         "                id = next(gen)\n", "                id = k\n")]),
    dict(name="fast-names-from-next-topology-on-2-edge-motif", property="C02", edits=[(FAST,
         "EdgeList.topologies.extend([self._edge_names[k]] * len(es))",
         "EdgeList.topologies.extend([self._edge_names[k if len(es) != 2 else (k + 1) % len(self._edge_names)]] * len(es))")]),
    dict(name="custom-id-reused-after-empty-motif", property="C02", edits=[(CUSTOM,
         "                id = next(gen)\n", "                id = next(gen) if j == 0 or k > 0 else j\n")]),
    dict(name="e2n-motif-id-from-topology-zip-shift", property="C02", edits=[(E2N,
         "edgelist.edge_list, edgelist.topologies, edgelist.motif_id\n",
         "edgelist.edge_list, edgelist.topologies, [0] + edgelist.motif_id[:-1]\n")]),
    # ---- C03 ------------------------------------------------------------------------------
    dict(name="fast-no-shuffle", property="C03", edits=[(FAST,
         "            random.shuffle(k_list)\n", "            pass\n")]),
    dict(name="fast-shuffle-first-topology-only", property="C03", edits=[(FAST,
         "        for k_list in stubs:\n            random.shuffle(k_list)\n",
         "        for k_list in stubs[:1]:\n            random.shuffle(k_list)\n")]),
    dict(name="custom-shuffle-copy", property="C03", edits=[(CUSTOM,
         "            random.shuffle(k_list)\n", "            random.shuffle(list(k_list))\n")]),
    dict(name="fast-sort-after-shuffle-pairs", property="C03", edits=[(FAST,
         "            random.shuffle(k_list)\n", "            random.shuffle(k_list)\n            k_list[:2] = sorted(k_list[:2])\n            k_list[:] = k_list[:1] + sorted(k_list[1:3]) + k_list[3:]\n")]),
    # ---- C05 ------------------------------------------------------------------------------
    dict(name="revert-fix-patched-tuple", property="C05", edits=[(JD, "jds[j] = tuple(t)", "jds[j] = t")]),
    dict(name="patch-adds-extra-motif", property="C05", edits=[(JD,
         "for j in range(self._motif_sizes[i] - ntop % self._motif_sizes[i]):",
         "for j in range(2 * self._motif_sizes[i] - ntop % self._motif_sizes[i]):")]),
    dict(name="patch-removes-stubs", property="C05", edits=[(JD,
         "for j in range(self._motif_sizes[i] - ntop % self._motif_sizes[i]):",
         "for j in range(ntop % self._motif_sizes[i]):"), (JD, "t[i] += 1", "t[i] -= 1")]),
    dict(name="sample-ignores-weights", property="C05", edits=[(JD,
         "random.choices(population=keys, weights=weights, k=N)", "random.choices(population=keys, k=N)")]),
    dict(name="handshake-first-topology-only", property="C05", edits=[(JD,
         "for i, ntop in enumerate(ntops):", "for i, ntop in enumerate(ntops[:2]):")]),
    dict(name="sample-short-for-large-N", property="C05", edits=[(JD,
         "random.choices(population=keys, weights=weights, k=N)",
         "random.choices(population=keys, weights=weights, k=N if N < 12 else N - 1)")]),
    dict(name="sample-normalises-source-in-place", property="C05", edits=[(JD,
         "        keys = list(self._jdd.keys())\n", "        self.normalise_jdd()\n        keys = list(self._jdd.keys())\n")]),
    # ---- C09 ------------------------------------------------------------------------------
    dict(name="revert-fix-sorted-subcliques", property="C09", edits=[(EECC,
         "combinations(sorted(C[c]), self._m0)", "combinations(C[c], self._m0)")]),
    dict(name="eecc-greedy-skips-edge-removal-of-last-pair", property="C09", edits=[(EECC,
         "            for i in range(max_ord):\n                for j in range(i + 1, max_ord):\n                    # assumes edges are ordered i < j\n                    self.remove_edge(cli[i], cli[j])",
         "            for i in range(max_ord):\n                for j in range(i + 1, max_ord if max_ord < 4 else max_ord - 1):\n                    # assumes edges are ordered i < j\n                    self.remove_edge(cli[i], cli[j])")]),
    dict(name="eecc-picks-smallest-on-tie-of-three", property="C09", edits=[(EECC,
         "            cli = C[idx]\n", "            cli = C[idx] if len(indexes_to_sample) < 3 else C[idx][: max(2, len(C[idx]) - 1)]\n")]),
    dict(name="eecc-m0-plus-one", property="C09", edits=[(EECC,
         "            if clique_size > self._m0:", "            if clique_size > self._m0 + (1 if self._m0 >= 4 else 0):")]),
    dict(name="eecc-score-zero-includes-near-zero", property="C09", edits=[(EECC,
         "            if r[c] == 0:", "            if r[c] < 0.2:")]),
    dict(name="eecc-final-dedup", property="C09", edits=[(EECC,
         "        return sorted(EC, key=lambda x: (-len(x), x[0], x[1]))",
         "        return sorted([list(t) for t in {tuple(x[:3]) for x in EC}], key=lambda x: (-len(x), x[0], x[1]))")]),
    # ---- C10 ------------------------------------------------------------------------------
    dict(name="mpcc-no-size-sort", property="C10", edits=[(MPCC,
         "    cliques = sorted(cliques, key=len, reverse=True)\n", "")]),
    dict(name="mpcc-ascending-sort", property="C10", edits=[(MPCC,
         "cliques = sorted(cliques, key=len, reverse=True)", "cliques = sorted(cliques, key=len)")]),
    dict(name="mpcc-no-claim", property="C10", edits=[(MPCC,
         "            g.remove_edges_from(list(itertools.combinations(c, 2)))\n", "")]),
    dict(name="mpcc-id-not-advanced-for-pairs", property="C10", edits=[(MPCC,
         "        ID: int = next(clique_ID)\n", "        ID: int = next(clique_ID) if len(c) != 2 else 0\n")]),
    dict(name="mpcc-limit-off-by-one", property="C10", edits=[(MPCC,
         "if len(c) > max_size and max_size > 0:", "if len(c) > max_size + 1 and max_size > 2:")]),
    dict(name="mpcc-sort-stability-broken-by-vertex", property="C10", edits=[(MPCC,
         "cliques = sorted(cliques, key=len, reverse=True)", "cliques = sorted(cliques, key=lambda c: (len(c) if len(c) != 4 else 2), reverse=True)")]),
    # ---- C18 ------------------------------------------------------------------------------
    dict(name="revert-fix-phi0", property="C18", edits=[(BP, "random.random() >= phi", "random.random() > phi")]),
    dict(name="bp-inverted", property="C18", edits=[(BP, "random.random() >= phi", "random.random() < phi")]),
    dict(name="bp-denominator-edges", property="C18", edits=[(BP,
         "return float(len(Gcc[0])) / G.order()", "return float(len(Gcc[0])) / max(G.order(), G.number_of_edges())")]),
    dict(name="bp-mutates-input", property="C18", edits=[(BP, "G: nx.Graph = g.copy()", "G: nx.Graph = g")]),
    dict(name="bp-one-draw-per-call", property="C18", edits=[(BP,
         "    es: list = [e for e in G.edges() if random.random() >= phi]",
         "    r = random.random()\n    es: list = [e for e in G.edges() if r >= phi]")]),
    dict(name="bp-phi-squared", property="C18", edits=[(BP, "random.random() >= phi", "random.random() >= phi * (2 - phi)")]),
    # ---- C20 ------------------------------------------------------------------------------
    dict(name="drawset-remove-last-slot", property="C20", edits=[(DRAW,
         "if position != len(self._edges):", "if position < len(self._edges) - 1:")]),
    dict(name="drawset-stale-index", property="C20", edits=[(DRAW,
         "            self._edge_hashmap[last_item] = position\n", "            pass\n")]),
    dict(name="drawset-add-duplicates", property="C20", edits=[(DRAW,
         "        if e in self._edge_hashmap:\n            return\n", "")]),
    dict(name="drawset-remove-absent-silent", property="C20", edits=[(DRAW,
         "position = self._edge_hashmap.pop(e)", "position = self._edge_hashmap.pop(e, len(self._edges) - 1)")]),
    dict(name="drawset-draw-skips-last", property="C20", edits=[(DRAW,
         "return random.choice(self._edges)", "return random.choice(self._edges[:-1] or self._edges)")]),
]

VARIANTS = [
    dict(name="mpcc-returns-labelled-copy", property="C10", edits=[(MPCC,
         "            G.edges[e[0], e[1]][\"clique\"] = f\"{len(c)}-{c}-{ID}\"\n\n    return G",
         "            g.add_edge(e[0], e[1])\n            g.edges[e[0], e[1]][\"clique\"] = f\"{len(c)}-{c}-{ID}\"\n\n    return g")]),
    dict(name="sample-randint-instead-of-randrange", property="C05", edits=[(JD,
         "j = random.randrange(0, len(jds))", "j = random.randint(0, len(jds) - 1)")]),
    dict(name="sample-choice-loop", property="C05", edits=[(JD,
         "jds = random.choices(population=keys, weights=weights, k=N)",
         "jds = [random.choices(keys, weights)[0] for _ in range(N)]")]),
    dict(name="fast-shuffle-via-sample", property="C03", edits=[(FAST,
         "            random.shuffle(k_list)\n", "            k_list[:] = random.sample(k_list, len(k_list))\n")]),
    dict(name="fast-shuffle-via-sample-c01", property="C01", edits=[(FAST,
         "            random.shuffle(k_list)\n", "            k_list[:] = random.sample(k_list, len(k_list))\n")]),
    dict(name="custom-pop-front", property="C01", edits=[(CUSTOM,
         "vertices.append(partitions[index].pop())", "vertices.append(partitions[index].pop(0))")]),
    dict(name="custom-pop-front-c03", property="C03", edits=[(CUSTOM,
         "vertices.append(partitions[index].pop())", "vertices.append(partitions[index].pop(0))")]),
    dict(name="fast-topologies-reversed-emission", property="C02", edits=[(FAST,
         "for k, k_list in enumerate(stubs):", "for k, k_list in reversed(list(enumerate(stubs))):")]),
    dict(name="drawset-draw-via-randrange", property="C20", edits=[(DRAW,
         "return random.choice(self._edges)", "return self._edges[random.randrange(len(self._edges))]")]),
    dict(name="drawset-draw-via-random-float", property="C20", edits=[(DRAW,
         "return random.choice(self._edges)", "return self._edges[int(random.random() * len(self._edges))]")]),
]
