"""Mutants (must be caught) and behaviour-preserving variants (must not alarm).

Each entry: name, property, edits = [(path relative to the repo root, old text, new text)].
All mutants compile and keep the repository's 47 baseline tests green (they only assert sizes).
"""

FAST = "gcmpy/gcm_algorithm/gcm_algorithm_fast.py"
CUSTOM = "gcmpy/gcm_algorithm/gcm_algorithm_custom_motifs.py"
NETGEN = "gcmpy/gcm_algorithm/gcm_algorithm_network.py"
FACTORY = "gcmpy/gcm_algorithm/gcm_algorithm_factory.py"
E2N = "gcmpy/network/edge_list_to_network.py"
JD = "gcmpy/joint_degree/joint_degree.py"
EECC = "gcmpy/covers/eecc.py"
MPCC = "gcmpy/covers/mpcc.py"
MCMC = "gcmpy/tools/markov_chain_monte_carlo_rewiring.py"
DRAW = "gcmpy/tools/draw_set.py"
JEJD = "gcmpy/tools/joint_excess_joint_degree.py"
JED = "gcmpy/tools/joint_excess_degree.py"
AE = "gcmpy/message_passing/equations/automated_equation.py"
MP = "gcmpy/message_passing/message_passing.py"
BP = "gcmpy/tools/bond_percolate.py"

MUTANTS = [
    # ---- C01 ------------------------------------------------------------------------------
    dict(name="fast-drop-last-group", property="C01", edits=[(FAST,
         "for vertices in grouper(k_list, self._motif_sizes[k]):",
         "for vertices in list(grouper(k_list, self._motif_sizes[k]))[: max(1, len(k_list) // self._motif_sizes[k] - (len(k_list) > 40))]:")]),
    dict(name="fast-stub-off-by-one-for-high-degree", property="C01", edits=[(FAST,
         "list(chain.from_iterable(starmap(repeat, r)))",
         "list(chain.from_iterable(starmap(repeat, ((v, min(d, 3)) for v, d in r))))")]),
    dict(name="custom-count-from-last-orbit", property="C01", edits=[(CUSTOM,
         "kk: int = motif_indexes[0]", "kk: int = motif_indexes[-1]"),
        (CUSTOM, "num_motifs = (0.0 + len(stubs[kk])) / self._motif_sizes[kk]",
         "num_motifs = (0.0 + len(stubs[kk])) / self._motif_sizes[motif_indexes[0]]")]),
    dict(name="network-drops-last-topology-when-three", property="C01", edits=[(NETGEN,
         "params[GCMAlgorithmNames.MOTIF_SIZES] = self._motif_sizes",
         "params[GCMAlgorithmNames.MOTIF_SIZES] = self._motif_sizes if len(self._motif_sizes) < 3 else self._motif_sizes[:2] + [1]")]),
    dict(name="factory-network-returns-fast", property="C01", edits=[(FACTORY,
         "return GCMAlgorithmNetwork(params)", "return GCMAlgorithmFast(params)")]),
    dict(name="fast-jds-copy-truncated", property="C01", edits=[(FAST,
         "EdgeList.joint_degrees = jds", "EdgeList.joint_degrees = [tuple(j) for j in jds if sum(j) > 0]")]),
    dict(name="custom-state-kept-across-calls", property="C01", edits=[(CUSTOM,
         "        self._motif_indices: list = []\n", "        self._motif_indices: list = []\n        self._leftover: list = []\n"),
        (CUSTOM, "        partitions: list[list] = []\n", "        partitions: list[list] = self._leftover\n")]),
    dict(name="revert-fix-zero-degree-nodes", property="C01", edits=[(E2N,
         "        model.G.add_nodes_from(range(len(edgelist.joint_degrees)))\n", "")]),
    # ---- C02 ------------------------------------------------------------------------------
    dict(name="revert-fix-bare-edge", property="C02", edits=[(CUSTOM,
         "if len(es) == 2 and not isinstance(es[0], (tuple, list)):", "if len(es) == 2:")]),
    dict(name="fast-id-per-topology", property="C02", edits=[(FAST,
         "                id = next(gen)\n", "                id = k\n")]),
    dict(name="fast-names-from-next-topology-on-2-edge-motif", property="C02", edits=[(FAST,
         "EdgeList.topologies.extend([self._edge_names[k]] * len(es))",
         "EdgeList.topologies.extend([self._edge_names[k if len(es) != 2 else (k + 1) % len(self._edge_names)]] * len(es))")]),
    dict(name="custom-id-reused-after-empty-motif", property="C02", edits=[(CUSTOM,
         "                id = next(gen)\n", "                id = next(gen) if j == 0 or k > 0 else j\n")]),
    dict(name="e2n-motif-id-from-topology-zip-shift", property="C02", edits=[(E2N,
         "edgelist.edge_list, edgelist.topologies, edgelist.motif_id\n",
         "edgelist.edge_list, edgelist.topologies, [0] + edgelist.motif_id[:-1]\n")]),
    # ---- C03 ------------------------------------------------------------------------------
    dict(name="fast-no-shuffle", property="C03", edits=[(FAST,
         "            random.shuffle(k_list)\n", "            pass\n")]),
    dict(name="fast-shuffle-first-topology-only", property="C03", edits=[(FAST,
         "        for k_list in stubs:\n            random.shuffle(k_list)\n",
         "        for k_list in stubs[:1]:\n            random.shuffle(k_list)\n")]),
    dict(name="custom-shuffle-copy", property="C03", edits=[(CUSTOM,
         "            random.shuffle(k_list)\n", "            random.shuffle(list(k_list))\n")]),
    dict(name="fast-sort-after-shuffle-pairs", property="C03", edits=[(FAST,
         "            random.shuffle(k_list)\n", "            random.shuffle(k_list)\n            k_list[:2] = sorted(k_list[:2])\n            k_list[:] = k_list[:1] + sorted(k_list[1:3]) + k_list[3:]\n")]),
    # ---- C20 ------------------------------------------------------------------------------
    dict(name="drawset-remove-last-slot", property="C20", edits=[(DRAW,
         "if position != len(self._edges):", "if position < len(self._edges) - 1:")]),
    dict(name="drawset-stale-index", property="C20", edits=[(DRAW,
         "            self._edge_hashmap[last_item] = position\n", "            pass\n")]),
    dict(name="drawset-add-duplicates", property="C20", edits=[(DRAW,
         "        if e in self._edge_hashmap:\n            return\n", "")]),
    dict(name="drawset-remove-absent-silent", property="C20", edits=[(DRAW,
         "position = self._edge_hashmap.pop(e)", "position = self._edge_hashmap.pop(e, len(self._edges) - 1)")]),
    dict(name="drawset-draw-skips-last", property="C20", edits=[(DRAW,
         "return random.choice(self._edges)", "return random.choice(self._edges[:-1] or self._edges)")]),
]

VARIANTS = [
    dict(name="fast-shuffle-via-sample", property="C03", edits=[(FAST,
         "            random.shuffle(k_list)\n", "            k_list[:] = random.sample(k_list, len(k_list))\n")]),
    dict(name="fast-shuffle-via-sample-c01", property="C01", edits=[(FAST,
         "            random.shuffle(k_list)\n", "            k_list[:] = random.sample(k_list, len(k_list))\n")]),
    dict(name="custom-pop-front", property="C01", edits=[(CUSTOM,
         "vertices.append(partitions[index].pop())", "vertices.append(partitions[index].pop(0))")]),
    dict(name="custom-pop-front-c03", property="C03", edits=[(CUSTOM,
         "vertices.append(partitions[index].pop())", "vertices.append(partitions[index].pop(0))")]),
    dict(name="fast-topologies-reversed-emission", property="C02", edits=[(FAST,
         "for k, k_list in enumerate(stubs):", "for k, k_list in reversed(list(enumerate(stubs))):")]),
    dict(name="drawset-draw-via-randrange", property="C20", edits=[(DRAW,
         "return random.choice(self._edges)", "return self._edges[random.randrange(len(self._edges))]")]),
    dict(name="drawset-draw-via-random-float", property="C20", edits=[(DRAW,
         "return random.choice(self._edges)", "return self._edges[int(random.random() * len(self._edges))]")]),
]
