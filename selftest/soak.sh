#!/bin/bash
# Thorough-tier soak on the unchanged tree: every check at its default wall budget, scratch evidence directory.
# usage: soak.sh [seed]
cd "$(dirname "$0")/.."
S=$(mktemp -d /tmp/gcmpy_soak_XXXXXX); export VERIF_EVIDENCE_DIR=$S/evidence VERIF_OUT_DIR=$S/out
seed=${1:-101}; bad=0
for c in C01 C02 C03 C05 C09 C10 C11 C12 C13 C15 C17 C18 C20; do
  out=$(VERIF_SEED=$seed timeout 3000 /venv/bin/python -m sim.check $c --tier thorough 2>&1); rc=$?
  if [ $rc -ne 0 ] || echo "$out" | grep -q '^VIOLATION'; then
    bad=$((bad+1)); echo "ALARM thorough seed=$seed $c rc=$rc"; echo "$out" | grep -v '^  File\|^    ' | tail -6
    mkdir -p out/soak_alarms; cp -r $S/out/replays out/soak_alarms/seed${seed}_$c 2>/dev/null
  else
    echo "ok thorough seed=$seed $c $(echo "$out" | tail -1 | sed 's/.*seed=[0-9]*: //' | cut -c1-110)"
  fi
done
rm -rf "$S"; echo "soak: 13 thorough runs, $bad alarm(s)"; [ $bad -eq 0 ]
