#!/bin/bash
# Run the repository's full baseline command against every seeded patch (scratch copies only) and record the result.
cd /verif
for d in seeded/*/; do
  name=$(basename $d)
  [ -f $d/full_suite_by_me.json ] && continue
  T=$(mktemp -d /tmp/gcmpy_full_XXXXXX)
  git -C /repo archive HEAD | tar -x -C $T
  ( cd $T && patch -p1 -s < /verif/$d/patch.diff ) || { echo "$name: patch failed"; rm -rf $T; continue; }
  ( cd $T && nice -n 5 timeout 2400 /venv/bin/python -m pytest -rf -q -p no:cacheprovider --timeout=900 --continue-on-collection-errors test > $T/full.log 2>&1 )
  last=$(tail -1 $T/full.log)
  failed=$(grep '^FAILED' $T/full.log | sed 's/.*:://; s/ .*//' | sort | tr '\n' ' ')
  /venv/bin/python - <<PY
import json
known = {"test_marginal","test_marginal_JDD_single_topology","test_marginal_JDD_two_topologies","test_marginal_JDD_two_topologies_sampling"}
failed = "$failed".split()
json.dump({"command": "pytest -q -p no:cacheprovider --timeout=900 --continue-on-collection-errors test (scratch copy of /repo HEAD + patch)",
           "summary": """$last""", "failed": failed, "failed_outside_always_fail_set": [f for f in failed if f not in known],
           "same_as_baseline": sorted(failed) == sorted(known) and "47 passed" in """$last"""},
          open("/verif/$d/full_suite_by_me.json", "w"), indent=1)
PY
  echo "$name: $last | outside always-fail set: $(/venv/bin/python -c "import json;print(json.load(open('/verif/$d/full_suite_by_me.json'))['failed_outside_always_fail_set'])")"
  rm -rf $T
done
