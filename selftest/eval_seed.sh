#!/bin/bash
# Evaluate one sub-agent-seeded change.  usage: eval_seed.sh <PROPERTY> <name> <dir with patch.diff demo.py notes.md> <test paths...>
# Everything runs in scratch copies of /repo's HEAD (never in /repo, never committed there).
P=$1; NAME=$2; SRC=$3; shift 3; TESTS="$@"
DEST=/verif/seeded/$NAME; mkdir -p $DEST
cp $SRC/patch.diff $SRC/demo.py $DEST/ 2>/dev/null; cp $SRC/notes.md $DEST/agent_notes.md 2>/dev/null
T=$(mktemp -d /tmp/gcmpy_seed_XXXXXX)
git -C /repo archive HEAD | tar -x -C $T
mkdir -p $T/SEED; cp $DEST/demo.py $T/SEED/
( cd $T && PYTHONPATH=$T timeout 600 /venv/bin/python SEED/demo.py > $T/demo_without.log 2>&1 ); D0=$?
if ! ( cd $T && git apply --check $DEST/patch.diff 2>/dev/null || patch -p1 --dry-run < $DEST/patch.diff >/dev/null 2>&1 ); then echo "PATCH DOES NOT APPLY"; fi
( cd $T && patch -p1 -s < $DEST/patch.diff ); PA=$?
( cd $T && PYTHONPATH=$T timeout 600 /venv/bin/python SEED/demo.py > $T/demo_with.log 2>&1 ); D1=$?
( cd $T && timeout 1500 /venv/bin/python -m pytest -q -p no:cacheprovider --timeout=900 -rf $TESTS 2>&1 | tail -12 ) > $T/tests.log; TS=$(tail -1 $T/tests.log)
FAILED=$(grep '^FAILED' $T/tests.log | sed 's/.*:://; s/ .*//' | sort | tr '\n' ' ')
KNOWN="test_marginal test_marginal_JDD_single_topology test_marginal_JDD_two_topologies test_marginal_JDD_two_topologies_sampling"
UNEXPECTED=""; for f in $FAILED; do case " $KNOWN " in *" $f "*) ;; *) UNEXPECTED="$UNEXPECTED $f";; esac; done
export VERIF_EVIDENCE_DIR=$T/evidence VERIF_OUT_DIR=$T/out PYTHONDONTWRITEBYTECODE=1
( cd /verif && VERIF_REPO=$T timeout 1800 /venv/bin/python -m sim.check $P --tier quick > $T/check.log 2>&1 ); RC=$?
CL=$(grep '^violation clause=' $T/check.log | sed 's/violation clause=\([^ ]*\).*/\1/' | sort -u | tr '\n' ' ')
FRESH=$(grep -c 'reproduces in a fresh interpreter' $T/check.log)
echo "== $NAME ($P): patch_applied=$PA demo_without=$D0 demo_with=$D1 tests='$TS' failed=[$FAILED] unexpected_failures=[$UNEXPECTED] check_exit=$RC clauses=[$CL] fresh_replays=$FRESH"
grep '^violation clause=' $T/check.log | head -3 | cut -c1-400
mkdir -p $DEST/replays; cp $T/out/replays/*.json $DEST/replays/ 2>/dev/null
/venv/bin/python - <<PY
import json
json.dump({"property": "$P", "name": "$NAME", "patch_applies": $PA == 0, "demo_exit_without_change": $D0, "demo_exit_with_change": $D1,
           "tests_run": "$TESTS", "tests_result_with_change": """$TS""", "failed_tests": "$FAILED".split(), "failed_tests_outside_always_fail_set": "$UNEXPECTED".split(), "quick_check_exit": $RC, "clauses_reported": "$CL".split(),
           "replays_reproduced_in_fresh_interpreter": $FRESH,
           "how_run": "scratch copy of /repo HEAD (git archive) + patch, checks run with VERIF_REPO=<copy> because a background seed sweep was using /repo itself"},
          open("$DEST/meta_auto.json", "w"), indent=1)
PY
tail -4 $T/demo_with.log | cut -c1-300 > $DEST/demo_output_with_change.txt
rm -rf $T
