#!/usr/bin/env python3
"""Sensitivity and no-false-alarm self-tests.

Every mutant is a small realistic change to gcmpy that still compiles; it is applied to a scratch copy
of /repo's working tree (outside /repo and /verif), the quick check of its property is run against the
copy (VERIF_REPO), and must exit 1 with a VIOLATION line (mutants) or exit 0 (behaviour-preserving
variants).  The scratch copy is removed immediately afterwards.

usage: sensitivity.py [--only C11] [--kind mutant|variant] [--list] [--jobs 4]
"""
import argparse
import json
import os
import shutil
import subprocess
import sys
import tempfile
import time

HERE = os.path.dirname(os.path.abspath(__file__))
VERIF = os.path.dirname(HERE)
REPO = os.environ.get("VERIF_REPO", "/repo")
PY = "/venv/bin/python"

sys.path.insert(0, HERE)
from mutants import MUTANTS, VARIANTS  # noqa: E402


def apply(root, edits):
    for path, old, new in edits:
        p = os.path.join(root, path)
        s = open(p).read()
        if s.count(old) < 1:
            raise RuntimeError(f"pattern not found in {path}: {old[:60]!r}")
        s = s.replace(old, new, 1)
        open(p, "w").write(s)


def run_one(m, kind, tier="quick", extra_env=None):
    tmp = tempfile.mkdtemp(prefix="gcmpy_mut_")
    try:
        shutil.copytree(os.path.join(REPO, "gcmpy"), os.path.join(tmp, "gcmpy"),
                        ignore=shutil.ignore_patterns("__pycache__"))
        try:
            apply(tmp, m["edits"])
        except RuntimeError as e:
            return {"name": m["name"], "property": m["property"], "status": "STALE", "detail": str(e)}
        env = dict(os.environ)
        env["VERIF_REPO"] = tmp
        env["PYTHONDONTWRITEBYTECODE"] = "1"
        env["VERIF_EVIDENCE_DIR"] = os.path.join(tmp, "evidence")
        env["VERIF_OUT_DIR"] = os.path.join(tmp, "out")
        if extra_env:
            env.update(extra_env)
        t0 = time.time()
        p = subprocess.run([PY, "-m", "sim.check", m["property"], "--tier", tier], cwd=VERIF, env=env,
                           capture_output=True, text=True, timeout=1800)
        wall = time.time() - t0
        viol = [l for l in p.stdout.splitlines() if l.startswith("VIOLATION")]
        clauses = [l.split("clause=")[1].split()[0] for l in p.stdout.splitlines() if l.startswith("violation clause=")]
        fresh_bad = "FRESH REPLAY MISMATCH" in p.stdout
        if kind == "mutant":
            ok = p.returncode == 1 and bool(viol) and not fresh_bad
        else:
            ok = p.returncode == 0 and not viol and not (m.get("forbid") and m["forbid"] in p.stdout)
        return {"name": m["name"], "property": m["property"], "status": "ok" if ok else "FAIL",
                "exit": p.returncode, "clauses": clauses, "wall_s": round(wall, 1),
                "tail": "" if ok else (p.stdout[-1500:] + p.stderr[-800:])}
    finally:
        shutil.rmtree(tmp, ignore_errors=True)


def main():
    ap = argparse.ArgumentParser()
    ap.add_argument("--only")
    ap.add_argument("--name")
    ap.add_argument("--kind", choices=["mutant", "variant", "all"], default="all")
    ap.add_argument("--list", action="store_true")
    ap.add_argument("--tier", default="quick")
    a = ap.parse_args()
    todo = []
    if a.kind in ("mutant", "all"):
        todo += [(m, "mutant") for m in MUTANTS]
    if a.kind in ("variant", "all"):
        todo += [(m, "variant") for m in VARIANTS]
    if a.only:
        todo = [t for t in todo if t[0]["property"] == a.only.upper()]
    if a.name:
        todo = [t for t in todo if a.name in t[0]["name"]]
    if a.list:
        for m, k in todo:
            print(k, m["property"], m["name"])
        return 0
    bad = 0
    results = []
    for m, kind in todo:
        r = run_one(m, kind, a.tier)
        r["kind"] = kind
        results.append(r)
        print(f"{kind:7s} {r['property']} {r['name']:45s} {r['status']:5s} exit={r.get('exit')} "
              f"clauses={r.get('clauses')} {r.get('wall_s')}s")
        if r["status"] != "ok":
            bad += 1
            print("   ", r.get("detail") or r.get("tail"))
    os.makedirs(os.path.join(VERIF, "out"), exist_ok=True)
    with open(os.path.join(VERIF, "out", "sensitivity.json"), "w") as f:
        json.dump(results, f, indent=1)
    print(f"{len(results) - bad}/{len(results)} as expected")
    return 1 if bad else 0


if __name__ == "__main__":
    sys.exit(main())
