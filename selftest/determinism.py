#!/usr/bin/env python3
"""Determinism self-test: for every claimed property, run the first N runs of several VERIF_SEED values in
separate fresh interpreters under different PYTHONHASHSEEDs and worker counts, and diff the per-run digests
(execution digest, outcome digest, decision count, violations).  Any divergence is a harness error.

usage: determinism.py [--runs 40] [--seeds 0 1 2] [--only C11]
"""
import argparse
import os
import subprocess
import sys

HERE = os.path.dirname(os.path.abspath(__file__))
VERIF = os.path.dirname(HERE)
PY = "/venv/bin/python"
CLAIMED = ["C01", "C02", "C03", "C05", "C09", "C10", "C11", "C12", "C13", "C15", "C17", "C18", "C20"]
CONFIGS = [("0", 16), ("12345", 1), ("random", 5)]      # (PYTHONHASHSEED, workers)
RUNS = {"C15": 30, "C17": 12, "C11": 30, "C12": 30}


def digests(cid, seed, n, hashseed, workers):
    env = dict(os.environ)
    env["VERIF_HASHSEED"] = hashseed if hashseed != "random" else str(__import__("random").SystemRandom().randrange(1, 2 ** 31))
    env.pop("PYTHONHASHSEED", None)
    env["VERIF_SEED"] = str(seed)
    p = subprocess.run([PY, "-m", "sim.check", cid, "--digests", str(n), "--workers", str(workers)],
                       cwd=VERIF, env=env, capture_output=True, text=True, timeout=3600)
    if p.returncode != 0:
        raise RuntimeError(f"{cid} seed {seed}: exit {p.returncode}: {p.stdout[-400:]} {p.stderr[-400:]}")
    return sorted(l for l in p.stdout.splitlines() if l.startswith("DIGEST"))


def main():
    ap = argparse.ArgumentParser()
    ap.add_argument("--runs", type=int, default=40)
    ap.add_argument("--seeds", type=int, nargs="*", default=[0, 1, 7])
    ap.add_argument("--only")
    a = ap.parse_args()
    bad = 0
    total = 0
    for cid in ([a.only.upper()] if a.only else CLAIMED):
        n = min(a.runs, RUNS.get(cid, a.runs))
        for seed in a.seeds:
            ref = None
            for hs, w in CONFIGS:
                d = digests(cid, seed, n, hs, w)
                total += len(d)
                if ref is None:
                    ref = d
                    runs = [l for l in d if " dist:" not in l]
                    if len(runs) < n:         # more than n when the check lists extra run indexes (DIGEST_EXTRA)
                        print(f"{cid} seed={seed}: expected at least {n} run digests, got {len(runs)}")
                        bad += 1
                elif d != ref:
                    diff = [(x, y) for x, y in zip(ref, d) if x != y][:3]
                    print(f"DIVERGENCE {cid} seed={seed} hashseed={hs} workers={w}: {diff}")
                    bad += 1
            nd = len([l for l in ref if " dist:" in l])
            print(f"{cid} seed={seed}: {len(ref) - nd} runs + {nd} distribution batches x {len(CONFIGS)} configurations "
                  f"{'identical' if not bad else 'see above'}", flush=True)
    print(f"determinism: {total} run digests compared, {bad} divergence(s)")
    return 1 if bad else 0


if __name__ == "__main__":
    sys.exit(main())
