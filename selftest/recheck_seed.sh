#!/bin/bash
# Re-run a property's check (default quick) against a stored seeded change.  usage: recheck_seed.sh <name> [CHECK_ID] [tier] [seed]
NAME=$1; P=${2:-${NAME%%-*}}; TIER=${3:-quick}; SEED=${4:-0}
T=$(mktemp -d /tmp/gcmpy_rc_XXXXXX); git -C /repo archive HEAD | tar -x -C $T
( cd $T && patch -p1 -s < /verif/seeded/$NAME/patch.diff ) || { echo "patch failed"; rm -rf $T; exit 3; }
( cd /verif && VERIF_SEED=$SEED VERIF_EVIDENCE_DIR=$T/ev VERIF_OUT_DIR=$T/out VERIF_REPO=$T PYTHONDONTWRITEBYTECODE=1 timeout 3000 /venv/bin/python -m sim.check $P --tier $TIER ${BUDGET:+--budget $BUDGET} > $T/log 2>&1 ); RC=$?
CL=$(grep '^violation clause=' $T/log | sed 's/violation clause=\([^ ]*\).*/\1/' | sort -u | tr '\n' ' ')
OCC=$(/venv/bin/python -c "
import json,glob
print([json.load(open(f)).get('occurrences_in_batch') for f in glob.glob('$T/out/replays/*.json')])")
echo "$NAME vs $P/$TIER seed=$SEED: exit=$RC clauses=[$CL] occurrences=$OCC fresh_ok=$(grep -c 'reproduces in a fresh interpreter' $T/log)"
grep '^violation clause=' $T/log | head -2 | cut -c1-300
rm -rf $T; exit $RC
